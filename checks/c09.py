"""C09 — unknown object types and filler bytes are skipped without losing neighbours."""
import os
import vlib
from checks import sesscheck as SC
from checks.c16 import write_cfg

LEVEL = "model_checking"


def hexs(s):
    return "".join("%02x" % ord(c) for c in s)


def resync_part(rep, tier):
    maxlen = 6 if tier == "quick" else 8
    cfg = write_cfg("Resync_%s.cfg" % tier, """SPECIFICATION Spec
CONSTANTS
  MaxLen = %d
  Alphabet = {"L", "O", "B", "J", "x"}
INVARIANTS FindsFirstSignature Progress Vector
CHECK_DEADLOCK FALSE
""" % maxlen)
    res = vlib.run_tlc("Resync", cfg, "c09_resync_" + tier, workers=16, timeout=1500, heap="16g")
    if not res["ok"] and res["violated"]:
        rep.add_tlc(res)
        rep.violation("resync:spec", "TLC: %s on Resync" % res["violated"], dict(out=res["out"]))
        return
    vlib.tlc_must_pass(res, "Resync")
    rep.add_tlc(res)
    d = os.path.join(vlib.WORK, "resync")
    os.makedirs(d, exist_ok=True)
    vec = os.path.join(d, "vectors_%s.txt" % tier)
    n = 0
    with open(vec, "w") as f:
        for v in res["lines"]:
            f.write("%s %d %d %d %d %d\n" % ("".join(v["filler"]) or "-", v["g"], v["reads"], v["seeks"], 1 if v["found"] else 0,
                                               1 if v["tail"] else 0))
            n += 1
    exes = vlib.build("plain", ["drv_resync"])
    results, other, rc, err = vlib.run_driver(exes["drv_resync"], [vec], timeout=900)
    if rc != 0 or not results:
        rep.violation("resync:crash", "resync driver failed rc=%s %s" % (rc, err[-400:]), dict(rc=rc, stderr=err))
        return
    r = results[0]
    rep.cov["evaluations"] += r["paths"]
    rep.cov["traces_validated_against_impl"] += r["paths"]
    rep.cov["resync_vectors"] = n
    rep.cov["resync_opcount_differs"] = r.get("opcount_differs", 0)
    rep.cov["samples"].append(dict(kind="filler vector", filler="".join(res["lines"][n // 2]["filler"]),
                                   expected=res["lines"][n // 2]))
    if r["mismatches"]:
        rep.violation("resync:mismatch", "ObjectHeaderBase::read differs from the Resync automaton on %d fillers; "
                      "first: %s" % (r["mismatches"], r.get("first")), r)
    elif r["paths"] != n:
        raise vlib.ToolError("resync driver consumed %d of %d vectors" % (r["paths"], n))


def session_grid(tier):
    can = SC.can
    raw = lambda s: ["raw", hexs(s)]
    g = [
        # partial signature prefixes directly before a real object, filler across a container boundary
        dict(name="f_LOB", params=dict(B=64, Q=2, NREADS=-1), items=[can(1), raw("xLOB"), can(2)], conts=[50, 50]),
        dict(name="f_LOLO", params=dict(B=64, Q=2, NREADS=-1), items=[can(1), raw("LOLO"), can(2)], conts=[49, 51]),
        dict(name="f_xxxL", params=dict(B=32, Q=1, NREADS=-1), items=[raw("xxxL"), can(1), raw("LL"), can(2)], conts=[3, 60, 39]),
        # unknown objects: reserved / zero / > 131 codes, sizes with every residue mod 4, next object directly behind
        dict(name="u_17", params=dict(B=64, Q=2, NREADS=-1), items=[can(1), ["unk", 200, 17], can(2)], conts=[60, 53]),
        dict(name="u_18_26", params=dict(B=64, Q=2, NREADS=-1), items=[["unk", 26, 18], can(1), ["unk", 0, 19], can(2)], conts=[133]),
        dict(name="u_16", params=dict(B=32, Q=1, NREADS=-1), items=[can(1), ["unk", 117, 16], ["unk", 132, 20], can(2)], conts=[40, 40, 52]),
    ]
    if tier == "thorough":
        g += [
            dict(name="f_long", params=dict(B=48, Q=1, NREADS=-1), items=[can(1), raw("LOBLOBxLOxLxJBOL"), can(2)], conts=[48, 10, 54]),
            dict(name="f_tail", params=dict(B=64, Q=2, NREADS=-1), items=[can(1), raw("LOB")], conts=[51]),
            dict(name="u_4096", params=dict(B=64, Q=2, NREADS=-1), items=[can(1), ["unk", 53, 300], can(2)], conts=[64] * 6 + [12]),
        ]
    return g


def run(rep, tier, seed):
    rep.cov["rule"] = ("Resync.tla: ObjectHeaderBase::read as an automaton; TLC enumerates every filler over {L,O,B,J,x} "
                       "up to the bound and checks FindsFirstSignature; every filler is executed on the real "
                       "ObjectHeaderBase::read/UncompressedFile (final position, number of reads and seeks). ReadSession "
                       "with filler and unknown objects between known ones and across container boundaries: "
                       "DoneDeliveredAll for all interleavings + edge replay; real-scale random schedules over unknown "
                       "codes x sizes")
    resync_part(rep, tier)
    SC.model_and_replay(rep, "r", session_grid(tier), "c09_r_" + tier,
                        ["DeadlockFree", "DeliveredIsPrefix", "DoneDeliveredAll", "NullIsLast"], liveness=False, key="session")
    # real scale: unknown codes x declared sizes, inside one container and across 64-byte containers
    codes = [0, 26, 27, 28, 52, 53, 108, 116, 117, 132, 200, 0xffffffff]
    sizes = [16, 17, 18, 19, 20, 48, 4096]
    items = []
    i = 1
    for c in codes:
        for s in (sizes if tier == "thorough" else sizes[:6]):
            items += [SC.can(i), ["unk", c, s]]
            i += 1
    items.append(SC.can(i))
    scs = [dict(name="U_one", params=dict(NREADS=-1, CHOP=0x20000), items=items),
           dict(name="U_c64", params=dict(NREADS=-1, CHOP=64), items=items)]
    rr, _ = SC.random_runs(rep, "r", scs, "c09_U_" + tier, seed, 3 if tier == "quick" else 12, key="scale")
    for r in rr:
        if r.get("wrongDelivery"):
            rep.violation("scale:%s:delivery" % r["scen"], "unknown objects lost neighbours: %s" % str(r.get("first"))[:300], r)
    rep.cov["distinct_nontrivial"] = rep.cov.get("resync_vectors", 0) + sum(m["edges"] for m in rep.cov.get("m1", []))
    rep.assumptions += ["the resynchronisation logic distinguishes only the bytes L, O, B, J (by inspection of its masks)",
                        "unknown objects are followed directly by the next object (no padding is assumed)"]
