"""C05 — file header statistics are exact and agree with the reader's running counters."""
import vlib
from checks import c04
from checks import sesscheck as SC

LEVEL = "model_checking"


def run(rep, tier, seed):
    rep.cov["rule"] = ("records of written files (independent decoder + reader counters) and of all Vector-produced "
                       "reference logs are validated by TLC against Container.tla (StatsOK / RefOK): fileSize, "
                       "uncompressedFileSize = 144 + sum(32 + usize), objectCount without restore-point objects, "
                       "restorePointsOffset, caller fields verbatim, reader counters = header values; StatsExact of "
                       "both session specs for all interleavings with edge replay")
    recs, err = c04.gen_records(tier, seed, True)
    if recs is None:
        rep.violation("gen:crash", "writer driver failed: %s" % err, err)
        return
    rejected = c04.validate(rep, recs, "c05_" + tier, "C05")
    c04.report(rep, recs, rejected, "C05")
    rep.cov["evaluations"] += len(recs)
    rep.cov["traces_validated_against_impl"] += len(recs)
    rep.cov["reference_logs"] = len([r for r in recs if r["kind"] == "ref"])
    rep.cov["samples"].append({k: v for k, v in recs[len(recs) // 3].items() if k not in ("parse",)})
    # + a complete file with header-only objects (declared size = the 16-byte base header, unknown and known type):
    # they are skipped / delivered like any other object and the counters go on to the end of the file
    extra = [dict(name="r_hdronly", params=dict(B=64, Q=2, NREADS=-1),
                  items=[SC.can(1), ["unk", 200, 16], SC.can(2), SC.lobj(1, 16, 16), SC.can(3)], conts=[176])]
    SC.model_and_replay(rep, "r", [s for s in SC.read_grid(tier) if s["params"]["NREADS"] < 0] + extra, "c05_r_" + tier,
                        ["StatsExact"], liveness=False, key="read")
    SC.model_and_replay(rep, "w", SC.write_grid(tier), "c05_w_" + tier, ["StatsExact"], liveness=False, key="write")
    rep.cov["distinct_nontrivial"] = len(recs) + sum(m["edges"] for m in rep.cov.get("m1", []))
    SC.pair_sessions(rep, seed + 5, 1 if tier == "quick" else 6)
    rep.assumptions += ["the independent decoder is trusted for the header layout"]
