"""C17 — type codes agree between constructors, the object factory and files."""
import json
import vlib
from checks import codec

LEVEL = "model_checking"


def poison_runs(rep, exe, key):
    """default-constructed objects of every class in heap memory pre-filled with different patterns:
    identical encodings and identical member values"""
    runs = {}
    for pat in (0x00, 0xAA, 0x55, 0xFF):
        results, other, rc, err = vlib.run_driver(exe, ["poison", pat], timeout=600)
        if rc != 0:
            rep.violation("%s:crash" % key, "poison driver failed (pattern %#x) rc=%s %s" % (pat, rc, err[-300:]), dict(rc=rc))
            return 0
        runs[pat] = {}
        for ln in other:
            if ln.startswith("POI "):
                r = json.loads(ln[4:])
                runs[pat][r["code"]] = r
    base = runs[0x00]
    n = 0
    for pat, rs in runs.items():
        for code, r in rs.items():
            n += 1
            b = base.get(code)
            if b is None:
                continue
            if r["bytes"] != b["bytes"]:
                d = next((i for i in range(0, min(len(r["bytes"]), len(b["bytes"])), 2) if r["bytes"][i:i + 2] != b["bytes"][i:i + 2]), -2) // 2
                rep.violation("%s:%s:bytes" % (key, r["cls"]), "encoding of a default-constructed %s depends on previous "
                              "memory contents (pattern %#x vs 0x00, first difference at byte %d of %d)"
                              % (r["cls"], pat, d, len(r["bytes"]) // 2), dict(cls=r["cls"], pattern=pat, offset=d))
            elif r["fields"] != b["fields"]:
                rep.violation("%s:%s:fields" % (key, r["cls"]), "members of a default-constructed %s depend on previous "
                              "memory contents (pattern %#x)" % (r["cls"], pat), dict(cls=r["cls"], pattern=pat))
    return n


def run(rep, tier, seed):
    rep.cov["rule"] = ("File::createObject for every code 0..255, boundary codes and 2000 seeded 32-bit codes: class created, "
                       "code of the created object, class its code maps back to - validated by TLC against the frozen "
                       "registry of Registry.tla (FactoryConsistent); default-constructed objects of every class built in "
                       "heap memory pre-filled with 4 patterns must have identical members and encodings; write/read-back "
                       "of default objects: FRAME records validated against DefaultRoundTrip (written under a code of the class, "
                       "read back completely as the same class)")
    exes = vlib.build("plain", ["drv_codec"])
    results, other, rc, err = vlib.run_driver(exes["drv_codec"], ["registry", seed], timeout=600)
    if rc != 0:
        rep.violation("registry:crash", "registry driver failed rc=%s %s" % (rc, err[-300:]), dict(rc=rc))
        return
    recs = []
    for ln in other:
        if ln.startswith("REG "):
            r = json.loads(ln[4:])
            r["name"] = "code%s%d" % ("H" if r["high"] else "", r["code"])
            recs.append(r)
    rejected = codec.validate(rep, recs, "c17_" + tier, "C17")
    byname = {r["name"]: r for r in recs}
    for nm in rejected:
        r = byname[nm]
        kind = "factory" if r["cls"] == "none" or r["backCls"] == r["cls"] and False else "ctor"
        if r["cls"] != "none" and r["backCls"] != r["cls"]:
            kind = "ctor"
        else:
            kind = "factory"
        rep.violation("registry:%s:%s" % (r["cls"] if r["cls"] != "none" else nm, kind),
                      "Framing.tla (FactoryConsistent) rejects %s: factory gives %s, its constructor code %s maps back to %s"
                      % (nm, r["cls"], r["ctorCode"], r["backCls"]), r)
    rep.cov["evaluations"] += len(recs)
    rep.cov["traces_validated_against_impl"] += len(recs)
    rep.cov["samples"].append(recs[65])
    n = poison_runs(rep, exes["drv_codec"], "poison")
    rep.cov["evaluations"] += n
    # default objects written and read back: class and code preserved (object-level round trip records)
    frecs, err = codec.frame_records("quick", seed)
    if frecs is None:
        rep.violation("frames:crash", "codec driver failed: %s" % err, err)
        return
    defaults = [r for r in frecs if str(r.get("shape", "")).endswith("-default")]
    byname = {r["name"]: r for r in defaults}
    for nm in codec.validate(rep, defaults, "c17d_" + tier, "C17D"):
        r = byname[nm]
        if r["crashed"] or r["decCls"] != r["cls"] or r["otField"] < 0:
            rep.violation("registry:%s:ctor" % r["cls"], "default-constructed %s is written under code %s, which reads "
                          "back as %s" % (r["cls"], r["otField"], r["decCls"]), r)
        else:
            rep.violation("registry:%s:readback" % r["cls"], "default-constructed %s (code %s): %d bytes written, reading "
                          "them back consumes %s (stream good: %s, exception: %s)"
                          % (r["cls"], r["otField"], r["emitted"], r["consumed"], r["decGood"], r["decThrew"]), r)
    # ... and through the File API
    import os
    dd = os.path.join(vlib.WORK, "c17files")
    os.makedirs(dd, exist_ok=True)
    results, other, rc, err = vlib.run_driver(exes["drv_codec"], ["defaults", dd], timeout=900)
    drecs = [json.loads(ln[4:]) for ln in other if ln.startswith("DEF ")]
    if rc != 0 or not results or not drecs:
        rep.violation("defaults:crash", "default objects through File: driver failed rc=%s %s" % (rc, err[-300:]), dict(rc=rc))
    else:
        byname = {r["name"]: r for r in drecs}
        for nm in codec.validate(rep, drecs, "c17f_" + tier, "C17F"):
            r = byname[nm]
            kind = "ctor" if r["delivered"] == 0 and r["ctorCode"] != r["code"] or r["backCls"] == "none" and r["ctorCode"] == 0 else "file"
            rep.violation("registry:%s:%s" % (r["cls"], kind), "default-constructed %s (code %s) written through File (restore points "
                          "%s, level %s): %d objects read back, first %s under code %s"
                          % (r["cls"], r["ctorCode"], r["rp"], r["level"], r["delivered"], r["backCls"], r["backCode"]), r)
        rep.cov["evaluations"] += len(drecs)
        rep.cov["default_objects_through_file"] = len(drecs)
    if tier == "thorough":
        from checks import sesscheck as SC
        SC.big_stream(rep)          # default objects of every class behind the 4 GiB mark of a stream
    rep.cov["default_objects_roundtripped"] = len(defaults)
    rep.cov["distinct_nontrivial"] = len(recs) + len(defaults)
    rep.assumptions += ["the registry is the annotated include list of File.h at the pinned commit, frozen in Registry.tla"]
