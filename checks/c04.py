"""C04 — finished files decode with an independent implementation of the container format.
(also hosts the shared machinery used by C05)"""
import hashlib
import json
import os
import shutil
import sys
import vlib

sys.path.insert(0, os.path.join(vlib.VERIF, "tools"))
import blfparse  # noqa: E402

LEVEL = "model_checking"
REFDIRS = ["events_from_binlog", "events_from_converter"]


def norm(p):
    """TLC integers are 32-bit: reduce the 32-bit caller fields to 31 bits, drop what the spec does not read"""
    h = p.get("header")
    if h:
        h["applicationBuild"] &= 0x7fffffff
        h["apiNumber"] &= 0x7fffffff
        h.pop("reserved", None)
        for k in ("fileSize", "uncompressedFileSize", "restorePointsOffset"):
            if h[k] >= 2 ** 31:
                h[k] = -1
    return p


def gen_records(tier, seed, with_refs):
    exes = vlib.build("plain", ["drv_wfile"])
    d = os.path.join(vlib.WORK, "wfile_%s" % tier)
    shutil.rmtree(d, ignore_errors=True)
    os.makedirs(d)
    results, other, rc, err = vlib.run_driver(exes["drv_wfile"], ["gen", d, seed, tier], timeout=1500)
    if rc != 0:
        return None, dict(rc=rc, stderr=err[-800:])
    recs = []
    for ln in other:
        if not ln.startswith("CASE "):
            continue
        c = json.loads(ln[5:])
        p = norm(blfparse.parse(c["file"]))
        truth = open(c["file"] + ".payload", "rb").read()
        c["truthSha"] = hashlib.sha256(truth).hexdigest()
        c["parse"] = p
        c["kind"] = "written"
        c["name"] = "%s C=%d level=%d rp=%s nobj=%d" % (os.path.basename(c["file"]), c["C"], c["level"], c["rp"], c["nobj"])
        recs.append(c)
    if with_refs:
        files = []
        base = os.path.join(vlib.BLF, "tests", "unittests")
        for rd in REFDIRS:
            dd = os.path.join(base, rd)
            files += sorted(os.path.join(dd, f) for f in os.listdir(dd) if f.endswith(".blf"))
        results, other, rc, err = vlib.run_driver(exes["drv_wfile"], ["readback"] + files, timeout=900)
        if rc != 0:
            return None, dict(rc=rc, stderr=err[-800:])
        for ln in other:
            if ln.startswith("READ "):
                c = json.loads(ln[5:])
                c["parse"] = norm(blfparse.parse(c["file"]))
                c["kind"] = "ref"
                c["name"] = "/".join(c["file"].split("/")[-2:])
                recs.append(c)
    return recs, None


def validate(rep, recs, tag, which="C04"):
    """trace validation of the records against Container.tla; returns names of rejected records"""
    d = os.path.join(vlib.WORK, "traces")
    os.makedirs(d, exist_ok=True)
    tr = os.path.join(d, tag + ".ndjson")
    with open(tr, "w") as f:
        for r in recs:
            f.write(json.dumps(r) + "\n")
    cfg = os.path.join(vlib.WORK, "cfg", tag + ".cfg")
    with open(cfg, "w") as f:
        f.write('SPECIFICATION Spec\nCONSTANT Which = "%s"\nINVARIANT Accepted\nCHECK_DEADLOCK FALSE\n' % which)
    rejected = []
    remaining = list(recs)
    rounds = 0
    while remaining and rounds < 12:
        rounds += 1
        with open(tr, "w") as f:
            for r in remaining:
                f.write(json.dumps(r) + "\n")
        res = vlib.run_tlc("Container", cfg, tag, workers=1, timeout=900, env={"TRACE": tr}, extra=["-continue"])
        rep.add_tlc(res)
        if res["rc"] not in (0, 12, 13) and not res["violated"]:
            vlib.tlc_must_pass(res, tag)
        names = []
        for ln in res["printed"]:
            if ln.startswith('<<"REJECTED"'):
                names.append(ln.split('"')[3])
        if not names:
            break
        rejected += names
        break       # -continue reports every rejected record in one run
    return rejected


def report(rep, recs, rejected, pid):
    byname = {r["name"]: r for r in recs}
    for nm in rejected:
        r = byname.get(nm, {})
        slim = {k: v for k, v in r.items() if k != "parse"}
        slim["parse_header"] = r.get("parse", {}).get("header")
        slim["parse_containers"] = r.get("parse", {}).get("containers", [])[:6]
        slim["problems"] = r.get("parse", {}).get("problems")
        rep.violation("%s:%s" % (r.get("kind", "?"), cls(r)), "Container.tla rejects the file '%s'" % nm, slim)


def cls(r):
    """groups rejected records so that one defect gives one violation key"""
    if r.get("kind") == "ref":
        return r["name"]
    return "level%s:C%s:rp%s" % ("0" if r.get("level") == 0 else "z", "small" if r.get("C", 0) < 4096 else "big", int(bool(r.get("rp"))))


def run(rep, tier, seed):
    rep.cov["rule"] = ("files written by the real File over the grid level x container size x restore points x sequence "
                       "template are projected by an independent decoder (tools/blfparse.py: struct + zlib) to records "
                       "that TLC validates against Container.tla (FormatOK): container count and sizes = Chop(total, C), "
                       "method / zlib level class for the configured level, object-size arithmetic, zero padding, "
                       "offset chaining, inflated payload = concatenation of the object encodings (sha256)")
    recs, err = gen_records(tier, seed, False)
    if recs is None:
        rep.violation("gen:crash", "writer driver failed: %s" % err, err)
        return
    rejected = validate(rep, recs, "c04_" + tier, "C04")
    report(rep, recs, rejected, "C04")
    rep.cov["evaluations"] += len(recs)
    rep.cov["traces_validated_against_impl"] += len(recs)
    rep.cov["distinct_nontrivial"] = len(recs)
    rep.cov["samples"].append({k: v for k, v in recs[len(recs) // 2].items() if k not in ("parse",)})
    from checks import sesscheck as SC
    SC.pair_sessions(rep, seed + 5, 1 if tier == "quick" else 6)
    rep.assumptions += ["zlib (python) and hashlib are trusted", "schedule independence of the container sequence is "
                        "C07's FileOutUnique"]
