"""C03 — every written object is framed exactly as its own header declares."""
import json
import vlib
from checks import codec

LEVEL = "model_checking"
RELEVANT = {"crash", "code", "size", "pad", "consume", "shape", "header", "stream"}


def run(rep, tier, seed):
    rep.cov["rule"] = ("for every creatable class x payload shapes (lengths 0..5, mixed, 300, 64 KiB+-1) x selector/scalar "
                       "variants (stale length fields included) the real encoder's output and the real decoder's "
                       "behaviour on it are recorded and TLC validates each record against Framing.tla "
                       "(FramedAsDeclared, with the frozen header sizes, type registry and padding set of Registry.tla); "
                       "concatenations of 50 random encodings are walked by header fields alone; the same records are "
                       "produced under ASan (reads outside the caller's containers)")
    recs, err = codec.frame_records(tier, seed)
    if recs is None:
        rep.violation("frames:crash", "codec driver failed: %s" % err, err)
        return
    rejected = codec.validate(rep, recs, "c03_" + tier, "C03")
    byname = {r["name"]: r for r in recs}
    for nm in rejected:
        r = byname[nm]
        for k in codec.frame_kinds(r):
            if k in RELEVANT:
                rep.violation("frame:%s:%s" % (r["cls"], k), "Framing.tla rejects %s: emitted=%s objectSize=%s "
                              "headerSize=%s consumed=%s %s" % (nm, r["emitted"], r["osField"], r["hsField"], r["consumed"],
                                                                r.get("diff", "")), r)
    rep.cov["evaluations"] += len(recs)
    rep.cov["traces_validated_against_impl"] += len(recs)
    rep.cov["classes"] = len({r["cls"] for r in recs})
    rep.cov["distinct_nontrivial"] = len({(r["cls"], r.get("shape")) for r in recs})
    rep.cov["samples"].append({k: v for k, v in recs[len(recs) // 2].items()})
    # walk by header fields alone
    exes = vlib.build("plain", ["drv_codec"])
    # classes with a listed known framing finding would make every walk fail: leave them out of the walk
    skip = sorted({r["code"] for r in recs for kf in rep.known if kf["key"].startswith("frame:%s:" % r["cls"])})
    results, other, rc, err = vlib.run_driver(exes["drv_codec"], ["walk", seed] + codec.pad_types(), timeout=600,
                                              env={"VERIF_WALK_SKIP": ",".join(map(str, skip))})
    rep.cov["walk_skipped_codes"] = skip
    if rc != 0 or not results:
        rep.violation("walk:crash", "walk driver failed rc=%s %s" % (rc, err[-300:]), dict(rc=rc))
    elif results[0]["mismatches"]:
        rep.violation("walk:lost-sync", "walking 50 concatenated encodings by header fields loses sync: %s"
                      % results[0].get("first"), results[0])
    else:
        rep.cov["walks"] = results[0]["paths"]
    # the same under ASan: an encoder reading outside the caller's containers is a sanitizer report
    if tier == "thorough":
        recs2, err2 = codec.frame_records("quick", seed + 1, variant="pasan")
        if recs2 is None:
            rep.violation("asan:crash", "ASan codec driver failed: %s" % err2, err2)
        else:
            for r in recs2:
                if r["crashed"]:
                    rep.violation("frame:%s:crash" % r["cls"], "encoder/decoder of %s crashes under ASan" % r["cls"], r)
            rep.cov["asan_records"] = len(recs2)
    rep.assumptions += ["shapes and scalar values are seeded samples per class (every class, every payload-length "
                        "residue, small and boundary selector values); the registry/padding/header-size facts are frozen "
                        "in Registry.tla"]
