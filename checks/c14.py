"""C14 — output bytes are a deterministic function of objects and configuration."""
import json
import os
import vlib
from checks import codec
from checks import c01
from checks import sesscheck as SC
from checks.c06 import scale_write

LEVEL = "model_checking"
PATTERNS = [0x00, 0xAA, 0x55]


def run(rep, tier, seed):
    rep.cov["rule"] = ("the same seeded objects (every class x shapes x variants) are built and encoded in processes whose "
                       "heap is pre-filled with different patterns: encodings must be identical (object level), as must "
                       "whole files written through File over the configuration grid (file level, fresh processes) and a "
                       "second write in the same process; padding / unused union bytes are zero (FramedAsDeclared's padZero "
                       "and C02's not-a-field bytes); schedule independence of the container sequence is FileOutUnique of "
                       "WriteSession for all interleavings + one output hash over seeded schedules at real scale")
    exes = vlib.build("plain", ["drv_codec"])
    base = None
    nrec = 0
    for pat in PATTERNS:
        results, other, rc, err = vlib.run_driver(exes["drv_codec"], ["frames", seed, tier, pat], timeout=1500)
        if rc != 0 or not results:
            rep.violation("frames:crash", "codec driver failed (pattern %#x) rc=%s %s" % (pat, rc, err[-300:]), dict(rc=rc))
            return
        cur = {}
        n = {}
        for ln in other:
            if ln.startswith("FRAME "):
                r = json.loads(ln[6:])
                k = (r["cls"], r.get("shape", "crash"))
                n[k] = n.get(k, 0) + 1
                cur["%s/%s#%d" % (k[0], k[1], n[k])] = r
        nrec += len(cur)
        if base is None:
            base = cur
            continue
        for nm, r in cur.items():
            b = base.get(nm)
            if b is None or r.get("crashed") or b.get("crashed"):
                continue
            if r.get("bytesHash") != b.get("bytesHash"):
                rep.violation("object:%s:poison" % r["cls"], "encoding of %s depends on the previous contents of heap memory "
                              "(pattern %#x vs %#x)" % (nm, pat, PATTERNS[0]), dict(name=nm, a=b, b=r))
    rep.cov["evaluations"] += nrec
    rep.cov["object_records"] = nrec
    # whole files, fresh processes with different poison, and twice in one grid position
    recs0, err = codec.frame_records("quick", seed)
    skip = c01.known_codes(rep, recs0 or [])
    runs = []
    for pat in PATTERNS:
        fr, err = c01.file_records(tier, seed, skip, poison=pat)
        if fr is None:
            rep.violation("files:crash", "file driver failed (pattern %#x): %s" % (pat, err), err)
            return
        runs.append({r["name"].split("#")[0]: r for r in fr})
    fr2, err = c01.file_records(tier, seed, skip, poison=PATTERNS[0])
    runs.append({r["name"].split("#")[0]: r for r in (fr2 or [])})
    for nm, r in runs[0].items():
        for j, other_run in enumerate(runs[1:]):
            o = other_run.get(nm)
            if o is None:
                continue
            if o["hash"] != r["hash"]:
                what = "level%s:C%s" % ("0" if r["level"] == 0 else "z", "small" if r["C"] < 4096 else "big")
                rep.violation("file:%s:%s" % (what, "repeat" if j == len(runs) - 2 else "poison"),
                              "file %s differs between two writes of the same objects (%s)"
                              % (nm, "same pattern, second process" if j == len(runs) - 2 else "heap pattern %#x" % PATTERNS[j + 1]),
                              dict(a=r, b=o))
    rep.cov["evaluations"] += sum(len(x) for x in runs)
    rep.cov["files_compared"] = len(runs[0]) * (len(runs) - 1)
    rep.cov["traces_validated_against_impl"] += len(runs[0])
    rep.cov["samples"].append(dict(kind="file hash", **{k: v for k, v in list(runs[0].values())[0].items()}))
    # the inflated payload of written files is exactly the concatenation of the object encodings (no stale bytes
    # in padding, whatever the worker timing was): records validated against Container.tla
    from checks import c04
    crecs, err = c04.gen_records(tier, seed + 7, False)
    if crecs is None:
        rep.violation("payload:crash", "writer driver failed: %s" % err, err)
    else:
        rejected = c04.validate(rep, crecs, "c14_payload_" + tier, "C04")
        c04.report(rep, crecs, rejected, "C14")
        rep.cov["evaluations"] += len(crecs)
    # schedules
    SC.model_and_replay(rep, "w", SC.write_grid(tier), "c14_w_" + tier, ["FileOutUnique", "NoOversize"], liveness=False, key="write")
    wr, _ = SC.random_runs(rep, "w", scale_write(tier), "c14_W_" + tier, seed, 6 if tier == "quick" else 40, key="write")
    for r in wr:
        if r.get("distinctOutputs", 1) > 1:
            rep.violation("write:random:%s:outputs" % r["scen"], "session '%s': %d distinct output files over %d schedules"
                          % (r["scen"], r["distinctOutputs"], r["runs"]), r)
    SC.pair_sessions(rep, seed + 5, 2 if tier == "quick" else 10)
    rep.cov["distinct_nontrivial"] = nrec + len(runs[0])
    rep.assumptions += ["heap poisoning through a replaced global operator new (stack memory is not poisoned)",
                        "zlib is deterministic"]
