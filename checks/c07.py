"""C07 — results are independent of thread interleaving."""
import vlib
from checks import sesscheck as SC
from checks.c06 import scale_read, scale_write, m2_read, m2_write

LEVEL = "model_checking"

R_INV = ["DeliveredIsPrefix", "NullIsLast", "EofOnlyAfterLast", "DoneDeliveredAll", "PipelineOrder", "StatsExact"]
W_INV = ["FileOutUnique", "NoOversize", "StatsExact"]


def run(rep, tier, seed):
    rep.cov["rule"] = ("for every interleaving (TLC, exhaustive per small configuration) delivered objects are a "
                       "prefix of the file's objects, complete at the end, nullptr last, and the container sequence "
                       "of a written file equals Chop(total, C); every edge replayed on the real File (delivered ids, "
                       "queue contents, output containers and header compared); real-scale sessions under seeded "
                       "random schedules must deliver the expected ids / produce one single output hash")
    SC.model_and_replay(rep, "r", SC.read_grid(tier), "c07_r_" + tier, R_INV, liveness=False, key="read", refine=True)
    SC.model_and_replay(rep, "w", SC.write_grid(tier), "c07_w_" + tier, W_INV, liveness=False, key="write", refine=True)
    nt = 3 if tier == "quick" else 12
    SC.trace_validate(rep, "r", m2_read(tier), "c07_Tr_" + tier, seed + 1, nt,
                      ["DeliveredIsPrefix", "PipelineOrder", "NullIsLast", "EofOnlyAfterLast", "DoneDeliveredAll", "StatsExact"], key="read")
    SC.trace_validate(rep, "w", m2_write(tier), "c07_Tw_" + tier, seed + 1, nt, ["FileOutUnique", "StatsExact", "NoOversize"], key="write")
    runs = 8 if tier == "quick" else 60
    rr, _ = SC.random_runs(rep, "r", scale_read(tier), "c07_R_" + tier, seed, runs, key="read")
    for r in rr:
        if r.get("wrongDelivery"):
            rep.violation("read:random:%s:delivery" % r["scen"], "session '%s': %d of %d schedules delivered the wrong "
                          "objects: %s" % (r["scen"], r["wrongDelivery"], r["runs"], str(r.get("first"))[:300]), r)
    wr, _ = SC.random_runs(rep, "w", scale_write(tier), "c07_W_" + tier, seed, runs, key="write")
    for r in wr:
        if r.get("distinctOutputs", 1) > 1:
            rep.violation("write:random:%s:outputs" % r["scen"], "session '%s': %d distinct output files over %d "
                          "schedules" % (r["scen"], r["distinctOutputs"], r["runs"]), r)
    rep.cov["random_sessions"] = [dict(scen=r["scen"], runs=r["runs"], ok=r["ok"], steps=r["steps"],
                                       distinct_outputs=r.get("distinctOutputs"), wrong=r.get("wrongDelivery"))
                                  for r in rr + wr]
    rep.cov["distinct_nontrivial"] = sum(m["edges"] for m in rep.cov.get("m1", []))
    rep.assumptions += ["object identity = objectTimeStamp set by the harness", "compression is deterministic (zlib)"]
