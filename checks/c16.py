"""C16 — the object queue is a bounded FIFO with exact end-of-stream and abort."""
import os
import vlib

LEVEL = "model_checking"


def fmt_action(a):
    return "%s %s" % (a["op"], a["arg"])


def write_cfg(name, body):
    d = os.path.join(vlib.WORK, "cfg")
    os.makedirs(d, exist_ok=True)
    p = os.path.join(d, name)
    with open(p, "w") as f:
        f.write(body)
    return p


def seq_part(rep, tier):
    maxobj, caps = (4, "{1, 2, 3}") if tier == "quick" else (6, "{1, 2, 3, 4}")
    cfg = write_cfg("ObjectQueueSeq_%s.cfg" % tier, """SPECIFICATION Spec
CONSTANTS
  MaxObj = %d
  Caps = %s
INVARIANTS FifoExactlyOnce Counters CapacityRespected EofFlag
PROPERTIES EofExact EofIffEmpty NeverNullWhileQueued RefinesAbs
VIEW View
ACTION_CONSTRAINT EdgeLog
CONSTRAINT InitLog
CHECK_DEADLOCK FALSE
""" % (maxobj, caps))
    res = vlib.run_tlc("ObjectQueueSeq", cfg, "c16_seq_" + tier, timeout=600)
    vlib.tlc_must_pass(res, "ObjectQueueSeq")
    rep.add_tlc(res)
    paths, stats = vlib.path_cover(res["lines"])
    exes = vlib.build("plain", ["drv_oq_seq"])
    agg = vlib.replay_paths(exes["drv_oq_seq"], paths, fmt_action, "c16_seq")
    rep.cov["evaluations"] += agg["steps"]
    rep.cov["traces_validated_against_impl"] += agg["paths"]
    rep.cov.setdefault("m1", []).append(dict(spec="ObjectQueueSeq", **stats, replayed_paths=agg["paths"],
                                            replayed_steps=agg["steps"]))
    if paths:
        p = paths[len(paths) // 2]
        rep.cov["samples"].append(dict(kind="M1 path (ObjectQueueSeq)", init=p[0],
                                       steps=[a for a, _ in p[2]][:12]))
    if agg["crashed"]:
        rep.violation("seq:crash", "driver crashed: %s" % agg["crashed"][0], agg["crashed"][0])
    if agg["mismatches"]:
        rep.violation("seq:mismatch", "real ObjectQueue leaves the spec graph: %s" % agg["first"], agg["first"])
    if agg["paths"] != stats["paths"] and not agg["crashed"] and not agg["mismatches"]:
        raise vlib.ToolError("replayed %d of %d paths" % (agg["paths"], stats["paths"]))


def unbounded_part(rep):
    """OQAbs.tla (the queue abstracted to its length; ObjectQueueSeq refines it, checked by TLC above): Apalache proves
    Counters and CapacityRespected for all capacities and counter values from an inductive invariant."""
    import shutil
    import subprocess
    exe = shutil.which("apalache-mc")
    out = dict(tool="apalache-mc", init_implies_inv=None, inv_inductive=None)
    rep.cov["unbounded"] = out
    if not exe:
        out["note"] = "apalache-mc not found: unbounded step skipped (bounded TLC results stand)"
        return
    wd = os.path.join(vlib.WORK, "apalache")
    os.makedirs(wd, exist_ok=True)
    for key, args in (("init_implies_inv", ["--init=Init", "--length=0"]), ("inv_inductive", ["--init=IndInit", "--length=1"])):
        try:
            r = subprocess.run([exe, "check", "--cinit=CInit", "--inv=IndInv", "--out-dir=" + os.path.join(wd, "out"),
                                "--run-dir=" + os.path.join(wd, "run_" + key)] + args + [os.path.join(vlib.SPEC, "OQAbs.tla")],
                               stdout=subprocess.PIPE, stderr=subprocess.STDOUT, timeout=600, cwd=wd, text=True)
            txt = r.stdout
        except subprocess.TimeoutExpired:
            out[key] = "timeout"
            continue
        if "The outcome is: NoError" in txt:
            out[key] = True
        elif "The outcome is: Error" in txt and "invariant" in txt.lower():
            out[key] = False
            rep.violation("unbounded:%s" % key, "Apalache: IndInv of OQAbs.tla is not %s"
                          % ("implied by Init" if key == "init_implies_inv" else "inductive"), dict(output=txt[-3000:]))
        else:
            out[key] = "tool failure (rc %s)" % r.returncode      # not a verdict: the bounded results stand
    shutil.rmtree(wd, ignore_errors=True)


def scale_part(rep, tier):
    """M3: OQOps evaluated by TLC on single large states (capacities / fill levels around 2^8 and 2^16) vs the real queue"""
    caps = [1, 2, 10, 255, 256, 257, 65535, 65536, 65537] + ([131071, 131072, 200000] if tier == "thorough" else [70000])
    vecs = sorted({(c, f) for c in caps for f in (c - 1, c) if f >= 0})
    # capacity lowered below the fill level (setBufferSize while objects are queued): the producer stays held until
    # the queue has drained below the new capacity
    vecs += [(1, 2), (1, 3), (2, 4), (10, 11), (10, 25), (255, 256), (255, 300), (65535, 65536)]
    mc = vlib.write_mc("MC_OQScale_" + tier, "OQScale", "MCVectors == {%s}" % ", ".join("<<%d, %d>>" % v for v in vecs))
    cfg = write_cfg("OQScale_%s.cfg" % tier, "SPECIFICATION Spec\nCONSTANTS Vectors <- MCVectors\nCHECK_DEADLOCK FALSE\n")
    res = vlib.run_tlc(mc, cfg, "c16_scale_" + tier, workers=1, timeout=600)
    vlib.tlc_must_pass(res, "OQScale")
    rep.add_tlc(res)
    exp = {(r["cap"], r["fill"]): r for r in res["lines"]}
    if len(exp) != len(vecs):
        raise vlib.ToolError("OQScale: TLC evaluated %d of %d vectors" % (len(exp), len(vecs)))
    exes = vlib.build("sched", ["drv_oq_conc"])
    vf = os.path.join(vlib.WORK, "traces", "oq_scale_%s.txt" % tier)
    os.makedirs(os.path.dirname(vf), exist_ok=True)
    with open(vf, "w") as f:
        for v in vecs:
            f.write("%d %d\n" % v)
    results, other, rc, err = vlib.run_driver(exes["drv_oq_conc"], ["scale", vf], timeout=900)
    got = [vlib.json.loads(ln[6:]) for ln in other if ln.startswith("SCALE ")]
    if rc != 0 or not results or len(got) != len(vecs):
        rep.violation("scale:crash", "scale driver failed rc=%s (%d of %d vectors) %s" % (rc, len(got), len(vecs), err[-300:]), dict(rc=rc))
        return
    for g in got:
        e = exp[(g["cap"], g["fill"])]
        bad = []
        if g["held"] != e["held"]:
            bad.append("producer %sheld back" % ("" if g["held"] else "NOT "))
        if g["lenAfterWrite"] != e["lenAfterWrite"]:
            bad.append("queue length after the write %d, expected %d" % (g["lenAfterWrite"], e["lenAfterWrite"]))
        if g["held"] and e["held"]:
            if (g["ret"], g["gAfterRead"]) != (e["ret"], e["gAfterRead"]):
                bad.append("read returned %s (g=%s), expected %s (g=%s)" % (g["ret"], g["gAfterRead"], e["ret"], e["gAfterRead"]))
            if g["releasedByRead"] == e["heldAfterRead"]:
                bad.append("after the read the producer is %s, expected %s"
                           % ("released" if g["releasedByRead"] else "still held", "still held" if e["heldAfterRead"] else "released"))
        if bad:
            rep.violation("scale:cap%d:fill%d" % (g["cap"], g["fill"]), "capacity %d holding %d objects: %s (OQScale.tla: %s)"
                          % (g["cap"], g["fill"], "; ".join(bad), vlib.json.dumps(e)), dict(expected=e, got=g))
    rep.cov["evaluations"] += len(got)
    rep.cov["traces_validated_against_impl"] += len(got)
    rep.cov["scale_vectors"] = len(got)
    rep.cov["samples"].append(dict(kind="M3 vector (OQScale)", expected=exp[vecs[-1]], got=got[-1]))


def run(rep, tier, seed):
    rep.cov["rule"] = ("every edge of the TLC state graph of ObjectQueueSeq/QueueConc is executed on the real "
                       "ObjectQueue; a case is one distinct (state, operation) edge; the same operators evaluated by TLC on single "
                       "large states (capacities and fill levels around 2^8 and 2^16, OQScale.tla) are compared with the real "
                       "queue in that state (is the producer held, what does read return, is the producer released)")
    seq_part(rep, tier)
    conc_part(rep, tier)
    scale_part(rep, tier)
    unbounded_part(rep)
    rep.cov["distinct_nontrivial"] = sum(m["edges"] for m in rep.cov.get("m1", []))
    rep.assumptions += ["projection reads private members (-fno-access-control)",
                        "Inf models numeric_limits<uint32_t>::max()"]


CONC_CFG = """SPECIFICATION %(spec)s
CONSTANTS Configs <- MCConfigs
INVARIANTS FifoExactlyOnce CapacityRespected NullLast WaitersJustified DoneDeliveredAll DeadlockFree
PROPERTIES EofExact %(props)s
VIEW View
%(edge)s
CHECK_DEADLOCK FALSE
"""


def fmt_conc(a):
    if a["op"] == "init":
        g = a["arg"]
        return "init %d %d %s %d" % (g["n"], g["cap"], g["scen"], g["k"])
    return "%s %s" % (a["op"], a["arg"])


def conc_part(rep, tier):
    if tier == "quick":
        grid = [(n, c, s, k) for n in (0, 2, 3) for c in (1, 2) for s, k in
                (("abort", 0), ("ends", 0), ("setsize", 1), ("none", 0))]
    else:
        grid = [(n, c, s, k) for n in (0, 1, 2, 3, 4) for c in (1, 2, 3) for s, k in
                (("abort", 0), ("ends", 0), ("setsize", 0), ("setsize", 2), ("setsize", 4), ("none", 0))]
    exes = vlib.build("sched", ["drv_oq_conc"])
    recs = ", ".join('[n |-> %d, cap |-> %d, scen |-> "%s", k |-> %d, spur |-> 1]' % g for g in grid)
    mc = vlib.write_mc("MC_QueueConc_" + tier, "QueueConc", "MCConfigs == {%s}" % recs)
    cfg = write_cfg("QueueConc_%s.cfg" % tier, CONC_CFG % dict(
        spec="Spec", props="", edge="ACTION_CONSTRAINT EdgeLog\nCONSTRAINT InitLog"))
    res = vlib.run_tlc(mc, cfg, "c16_conc_" + tier, timeout=900)
    vlib.tlc_must_pass(res, "QueueConc safety")
    rep.add_tlc(res)
    # liveness (abort releases every waiter; declared end reached => everybody finishes), weak fairness
    cfg2 = write_cfg("QueueConc_%s_live.cfg" % tier, CONC_CFG % dict(spec="FairSpec", props="Termination", edge=""))
    res2 = vlib.run_tlc(mc, cfg2, "c16_conc_live_" + tier, timeout=900)
    vlib.tlc_must_pass(res2, "QueueConc liveness")
    rep.add_tlc(res2)
    paths, stats = vlib.path_cover(res["lines"])
    agg = vlib.replay_paths(exes["drv_oq_conc"], paths, fmt_conc, "c16_conc")
    rep.cov["evaluations"] += agg["steps"]
    rep.cov["traces_validated_against_impl"] += agg["paths"]
    rep.cov.setdefault("m1", []).append(dict(spec="QueueConc", configs=len(grid), **stats,
                                            replayed_paths=agg["paths"], replayed_steps=agg["steps"]))
    if agg["crashed"]:
        rep.violation("conc:crash", "driver crashed: %s" % agg["crashed"][0], agg["crashed"][0])
    elif agg["mismatches"]:
        rep.violation("conc:mismatch", "real ObjectQueue under the scheduler leaves the spec graph: %s"
                      % agg["first"], dict(first=agg["first"]))
    elif agg["paths"] != stats["paths"]:
        raise vlib.ToolError("replayed %d of %d paths" % (agg["paths"], stats["paths"]))
    if paths:
        p = paths[-1]
        rep.cov["samples"].append(dict(kind="M1 path (QueueConc)", config=p[0]["arg"],
                                       threads=[vlib.json.loads(a)["op"] for a, _ in p[2]][:40]))
