"""C02 — objects from Vector-produced logs survive decode-then-encode byte for byte."""
import json
import os
import sys
import vlib
from checks import codec

sys.path.insert(0, os.path.join(vlib.VERIF, "tools"))
import refimages  # noqa: E402

LEVEL = "model_checking"


def image_file():
    base = os.path.join(vlib.BLF, "tests", "unittests")
    d = os.path.join(vlib.WORK, "images")
    os.makedirs(d, exist_ok=True)
    fn = os.path.join(d, "images.txt")
    n = 0
    types = set()
    with open(fn, "w") as f:
        for name, ot, img, osz, pad, last in refimages.all_images(base):
            f.write("%s %s\n" % (name, img.hex()))
            n += 1
            types.add(ot)
        # raw-object samples shipped with the project
        lob = os.path.join(base, "lobj")
        for root, dirs, files in os.walk(lob):
            if "corrupt" in root:
                continue
            for x in sorted(files):
                if x.endswith(".lobj"):
                    b = open(os.path.join(root, x), "rb").read()
                    for i, (ot, img, osz, pad, last) in enumerate(refimages.objects(b)):
                        f.write("lobj/%s/%s#%d %s\n" % (os.path.basename(root), x, i, img.hex()))
                        n += 1
    return fn, n, len(types)


def run(rep, tier, seed):
    rep.cov["rule"] = ("every object image of the 170 reference logs (independent extraction: struct + zlib, walk by header "
                       "fields) and the raw .lobj samples: decode with the real class, encode, compare byte for byte; "
                       "derived images (single-byte substitutions between base header and object size; aligned 2/4/8-byte "
                       "groups with boundary values in the thorough tier) that are still decoded completely and with the "
                       "same shape must re-encode to themselves. TLC validates the per-image records against Framing.tla "
                       "(ImageOK): the frozen registry must map the image's type code to the decoding class and the "
                       "padding rule must explain the image's length")
    fn, n, ntypes = image_file()
    exes = vlib.build("plain", ["drv_codec"])
    # split the image list over processes
    lines = open(fn).read().splitlines()
    nproc = 16
    parts = []
    for i in range(nproc):
        p = fn + ".%d" % i
        with open(p, "w") as f:
            f.write("\n".join(lines[i::nproc]) + "\n")
        parts.append(p)
    from concurrent.futures import ThreadPoolExecutor

    def one(p):
        return vlib.run_driver(exes["drv_codec"], ["images", p, tier], timeout=2400)
    recs = []
    with ThreadPoolExecutor(max_workers=nproc) as ex:
        for results, other, rc, err in ex.map(one, parts):
            if rc != 0 or not results:
                rep.violation("images:crash", "image driver failed rc=%s %s" % (rc, err[-400:].replace("\n", " | ")), dict(rc=rc))
                continue
            rep.cov["evaluations"] += results[0]["paths"]
            for ln in other:
                if ln.startswith("IMG "):
                    recs.append(dict(json.loads(ln[4:]), tier=tier))
    rejected = codec.validate(rep, recs, "c02_" + tier, "C02")
    byname = {r["name"]: r for r in recs}
    for nm in rejected:
        r = byname[nm]
        extra = [m for m in r.get("ownedMembers", []) if m not in codec.owned_members().get(r["cls"], ())]
        if not r["complete"]:
            kinds = ["decode"]
        elif not r["identity"]:
            kinds = ["identity"]
        else:
            kinds = []
            if r["derivedBad"]:
                bv = r.get("badValues", {})
                kinds += ["derived:b%d:v%s" % (k, bv.get(str(k), "")) for k in r.get("badOffsets", [])] or ["derived"]
            kinds += ["overwrite:%s" % m for m in extra]
            floor = scope_floor(r["name"], tier)
            if r.get("inScope", 0) < floor:
                kinds.append("scope")
                r["firstBad"] = (r.get("firstBad", "") + " only %d of the %d derived images that are in scope for the format are "
                                 "still decoded completely with the same shape" % (r.get("inScope", 0), floor)).strip()
            if not kinds:
                kinds = ["registry"]
        for kind in kinds:
            rep.violation("image:%s:%s" % (r["cls"], kind), "Framing.tla (ImageOK) rejects %s (%s): identity=%s complete=%s "
                          "derived ok/bad=%d/%d %s%s" % (nm, r["cls"], r["identity"], r["complete"], r["derivedOk"],
                                                        r["derivedBad"], r.get("firstBad", ""),
                                                        " encoder overwrites " + kind[10:] if kind.startswith("overwrite:") else ""), r)
    rep.cov["evaluations"] += sum(r.get("derivedOk", 0) + r.get("derivedBad", 0) + r.get("notAField", 0) for r in recs)
    rep.cov["derived_images"] = sum(r.get("derivedOk", 0) + r.get("derivedBad", 0) for r in recs)
    rep.cov["images"] = len(recs)
    rep.cov["image_types"] = ntypes
    rep.cov["traces_validated_against_impl"] += len(recs)
    rep.cov["distinct_nontrivial"] = len(recs)
    if recs:
        rep.cov["samples"].append(recs[len(recs) // 2])
    if len(recs) != n and not rep.violations:
        raise vlib.ToolError("%d of %d images processed" % (len(recs), n))
    rep.assumptions += ["the image extractor (tools/refimages.py) is trusted", "derived images outside the property's "
                        "precondition (decode incomplete or shape changed) are skipped, not judged"]


_scope = None


def scope_floor(name, tier):
    """InScopeFloor of ImageScope.tla, parsed for labelling only (the decision is TLC's)"""
    global _scope
    if _scope is None:
        import re
        _scope = {}
        for m in re.finditer(r'\("([^"]+)" :> <<(\d+), (\d+)>>\)', open(os.path.join(vlib.SPEC, "ImageScope.tla")).read()):
            _scope[m.group(1)] = (int(m.group(2)), int(m.group(3)))
    return _scope.get(name, (0, 0))[0 if tier == "quick" else 1]
