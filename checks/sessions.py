"""Shared machinery for the session specs (ReadSession / WriteSession):
scenario files -> driver 'describe' -> MC module -> TLC (+ edge log) -> path cover -> M1 replay."""
import json
import os
import vlib


def tla(x):
    if isinstance(x, bool):
        return "TRUE" if x else "FALSE"
    if isinstance(x, int):
        return str(x)
    if isinstance(x, str):
        return '"%s"' % x
    if isinstance(x, (list, tuple)):
        return "<<" + ", ".join(tla(y) for y in x) + ">>"
    if isinstance(x, dict):
        return "[" + ", ".join("%s |-> %s" % (k, tla(v)) for k, v in x.items()) + "]"
    raise ValueError(x)


def write_scenarios(fn, scs):
    """scs: list of dict(name, params={B,Q,POST,NREADS,METHOD,LEVEL,CUT,TAIL}, items=[...], conts=[...])"""
    os.makedirs(os.path.dirname(fn), exist_ok=True)
    with open(fn, "w") as f:
        for s in scs:
            f.write("SCEN %s\n" % s["name"])
            f.write("PARAM " + " ".join("%s %s" % (k, v) for k, v in s["params"].items()) + "\n")
            for it in s["items"]:
                f.write("ITEM " + " ".join(str(x) for x in it) + "\n")
            if s.get("conts"):
                f.write("CONTS " + " ".join(str(c) for c in s["conts"]) + "\n")
            f.write("END\n")


def describe(exe, scenfile):
    results, other, rc, err = vlib.run_driver(exe, ["describe", scenfile], timeout=300)
    if rc != 0:
        raise vlib.ToolError("describe failed rc=%s %s" % (rc, err[-800:]))
    out = []
    for ln in other:
        if ln.startswith("DESC "):
            out.append(json.loads(ln[5:]))
    return out


def finish_desc(d, touch="before"):
    d["held"] = held_bound(d)
    d["touch"] = touch
    d.setdefault("spur", 0)
    return d


def held_bound(d):
    """C12 bound used by the spec's HeldBounded for this configuration.  It must not depend on the number of
    containers, and it must hold for EVERY schedule (the M2 configurations are not explored exhaustively):
    the decompressor appends while fewer than B bytes are between the get and the put position, one container at a
    time; the reader keeps the containers its current object overlaps, and a skip over an unknown object can move
    the get position ahead of the put position by up to an object size."""
    maxu = max([c["usize"] for c in d["conts"]] + [0])
    maxo = max([o["osz"] for o in d["objs"]] + [0])
    return d["B"] + 3 * maxu + 2 * maxo


def fmt_action(a):
    if a["op"] == "init":
        return "init %s" % a["arg"]
    return "%s %s" % (a["op"], a["arg"])


def run_m1(rep, module, mcname, descs, invariants, exe, scenfile, tag, fair_props=(), workers=16,
           timeout=1500, extra_defs="", check_deadlock=False):
    """TLC on the session spec for the described configurations, with the edge log; then replay."""
    recs = ",\n".join(tla(d) for d in descs)
    mc = vlib.write_mc(mcname, module, "MCConfigs == {%s}\n%s" % (recs, extra_defs))
    cfg = os.path.join(vlib.WORK, "cfg", mcname + ".cfg")
    os.makedirs(os.path.dirname(cfg), exist_ok=True)
    with open(cfg, "w") as f:
        f.write("SPECIFICATION Spec\nCONSTANTS Configs <- MCConfigs\nINVARIANTS %s\nVIEW View\n"
                "ACTION_CONSTRAINT EdgeLog\nCONSTRAINT InitLog\nCHECK_DEADLOCK FALSE\n" % " ".join(invariants))
    res = vlib.run_tlc(mc, cfg, tag, workers=workers, timeout=timeout, heap="16g")
    return mc, res


def tlc_violation_trace(res):
    """Extracts TLC's counterexample (text) for reporting."""
    out = []
    keep = False
    with open(res["out"], errors="replace") as f:
        for ln in f:
            if ln.startswith("Error:"):
                keep = True
            if keep and not ln.startswith('"{'):
                out.append(ln.rstrip())
            if len(out) > 400:
                break
    return "\n".join(out)
