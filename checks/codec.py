"""Shared machinery of the codec-level checks (C01 object level, C03, C17, C14, C02): records from
harness/drv_codec, trace validation against spec/Framing.tla."""
import json
import os
import re
import vlib

PAD_TYPES = None


def pad_types():
    global PAD_TYPES
    if PAD_TYPES is None:
        s = open(os.path.join(vlib.SPEC, "Registry.tla")).read()
        PAD_TYPES = [int(x) for x in re.search(r"PadTypes == \{([^}]*)\}", s).group(1).split(",")]
    return PAD_TYPES


def frame_records(tier, seed, variant="plain"):
    exes = vlib.build(variant, ["drv_codec"])
    results, other, rc, err = vlib.run_driver(exes["drv_codec"], ["frames", seed, tier], timeout=1500)
    if rc != 0 or not results:
        return None, dict(rc=rc, stderr=err[-800:])
    recs = []
    n = {}
    for ln in other:
        if ln.startswith("FRAME "):
            r = json.loads(ln[6:])
            k = (r["cls"], r.get("shape", "crash"))
            n[k] = n.get(k, 0) + 1
            r["name"] = "%s/%s#%d" % (r["cls"], r.get("shape", "crash"), n[k])
            r.setdefault("crashed", False)
            for f, dv in (("encThrew", False), ("sig", False), ("hsField", -1), ("hvField", -1), ("osField", -1),
                          ("otField", -1), ("emitted", -1), ("padZero", False), ("shapeKept", False), ("consumed", -1),
                          ("decGood", False), ("decThrew", False), ("sameShape", False), ("sameFields", False),
                          ("reencSame", False), ("decCls", "none"), ("widthTrunc", False), ("ufSame", False), ("ownedMembers", [])):
                r.setdefault(f, dv)
            recs.append(r)
    return recs, None


def validate(rep, recs, tag, which, module="Framing"):
    d = os.path.join(vlib.WORK, "traces")
    os.makedirs(d, exist_ok=True)
    tr = os.path.join(d, tag + ".ndjson")
    with open(tr, "w") as f:
        for r in recs:
            f.write(json.dumps(r) + "\n")
    cfg = os.path.join(vlib.WORK, "cfg", tag + ".cfg")
    os.makedirs(os.path.dirname(cfg), exist_ok=True)
    with open(cfg, "w") as f:
        f.write('SPECIFICATION Spec\nCONSTANT Which = "%s"\nINVARIANT Accepted\nCHECK_DEADLOCK FALSE\n' % which)
    res = vlib.run_tlc(module, cfg, tag, workers=1, timeout=1500, env={"TRACE": tr}, extra=["-continue"])
    rep.add_tlc(res)
    if res["rc"] not in (0, 12, 13) and not res["violated"]:
        vlib.tlc_must_pass(res, tag)
    if res["distinct"] != len(recs):
        raise vlib.ToolError("%s: TLC consumed %d of %d records" % (tag, res["distinct"], len(recs)))
    names = []
    for ln in res["printed"]:
        if ln.startswith('<<"REJECTED"'):
            names.append(ln.split('"')[3])
    return names


def frame_kinds(r):
    """labels for a rejected FRAME record (the decision is TLC's; this only names the failing aspect)"""
    pad = (r["osField"] % 4) if r["otField"] in pad_types() and r["osField"] >= 0 else 0
    k = []
    if r["crashed"] or r["encThrew"]:
        k.append("crash")
    else:
        if r["otField"] != r["code"] and r["decCls"] != r["cls"]:
            k.append("code")
        if r["emitted"] != r["osField"] + pad or r["osField"] < r["hsField"]:
            k.append("size")
        if not r["padZero"]:
            k.append("pad")
        if r["consumed"] != r["emitted"] or not r["decGood"] or r["decThrew"]:
            k.append("consume")
        if (not r["sameShape"] and not r["widthTrunc"]) or not r["shapeKept"]:
            k.append("shape")
        if not r["sameFields"]:
            k.append("fields")
        if not r["reencSame"]:
            k.append("reenc")
        if r["decCls"] != r["cls"]:
            k.append("class")
        if not r["ufSame"]:
            k.append("stream")
        if any(m not in owned_members().get(r["cls"], ()) for m in r["ownedMembers"]):
            k.append("overwrite")
    return k or ["header"]


_owned = None


def owned_members():
    """EncoderOwned of Registry.tla, parsed for labelling only (the decision is TLC's)"""
    global _owned
    if _owned is None:
        import re
        _owned = {}
        txt = open(os.path.join(vlib.SPEC, "Registry.tla")).read()
        txt = txt[txt.index("EncoderOwned(cls) =="):]
        for m in re.finditer(r'cls = "(\w+)" -> \{([^}]*)\}', txt):
            _owned[m.group(1)] = set(re.findall(r'"([^"]+)"', m.group(2)))
    return _owned
