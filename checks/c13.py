"""C13 — every object is released exactly once and sessions shut down cleanly."""
import os
import vlib
from checks import sesscheck as SC
from checks.c16 import write_cfg

LEVEL = "model_checking"


def fmt_action(a):
    return "%s %s" % (a["op"], a["arg"])


def lifecycle(rep, tier):
    maxlen, sizes, maxw = (7, "{0, 1, 2, 12}", 2) if tier == "quick" else (10, "{0, 1, 2, 3, 50}", 4)
    cfg = write_cfg("Lifecycle_%s.cfg" % tier, """SPECIFICATION Spec
CONSTANTS
  FileSizes = %s
  MaxLen = %d
  MaxWrites = %d
INVARIANTS NoThreadLeft ReleasedAtEnd OpenFlag ReadFlags DeliveredBounded
VIEW View
ACTION_CONSTRAINT EdgeLog
CONSTRAINT InitLog
CHECK_DEADLOCK FALSE
""" % (sizes, maxlen, maxw))
    res = vlib.run_tlc("Lifecycle", cfg, "c13_life_" + tier, timeout=900, workers=16)
    vlib.tlc_must_pass(res, "Lifecycle")
    rep.add_tlc(res)
    paths, stats = vlib.path_cover(res["lines"])
    res["lines"] = None
    exes = vlib.build("pasan", ["drv_life"])
    d = os.path.join(vlib.WORK, "life")
    os.makedirs(d, exist_ok=True)
    agg = vlib.replay_paths(exes["drv_life"], paths, fmt_action, "c13_life", extra_args=[d], timeout=1500,
                            env={"ASAN_OPTIONS": "detect_leaks=1:exitcode=66:abort_on_error=0"})
    rep.cov["evaluations"] += agg["steps"]
    rep.cov["traces_validated_against_impl"] += agg["paths"]
    rep.cov.setdefault("m1", []).append(dict(spec="Lifecycle", **stats, replayed_paths=agg["paths"],
                                            replayed_steps=agg["steps"]))
    if paths:
        p = paths[len(paths) // 2]
        rep.cov["samples"].append(dict(kind="history (Lifecycle)", objects_in_file=p[0]["arg"],
                                       calls=[vlib.json.loads(a)["op"] for a, _ in p[2]]))
    if agg["crashed"]:
        c = agg["crashed"][0]
        rep.violation("life:crash", "driver crashed / sanitizer or leak report: rc=%s %s"
                      % (c.get("rc"), (c.get("stderr") or "")[-700:].replace("\n", " | ")), c)
    elif agg["mismatches"]:
        rep.violation("life:mismatch", "real File leaves the Lifecycle graph: %s" % str(agg["first"])[:500], agg["first"])
    elif agg["paths"] != stats["paths"]:
        raise vlib.ToolError("replayed %d of %d paths" % (agg["paths"], stats["paths"]))


def run(rep, tier, seed):
    rep.cov["rule"] = ("every call history of the Lifecycle graph (bounded length) replayed on the real File in an "
                       "ASan/LSan build: is_open/good/eof, delivered ids, OS thread count after every call, "
                       "recoverable leak check after destruction; plus ownership invariants (Accounted, AllDeleted) of "
                       "the session specs for abandoned sessions, edge-replayed under ASan")
    lifecycle(rep, tier)
    # abandoned / early-closed sessions: ownership at the end of every interleaving
    rg = [s for s in SC.read_grid(tier) if s["params"]["NREADS"] >= 0 or s["name"] in ("r_aligned", "r_t115")]
    SC.model_and_replay(rep, "r", rg, "c13_r_" + tier, ["Accounted", "DeadlockFree"], liveness=False, variant="asan", key="read")
    # (incl. the session that writes a restore-point container: the one class the write path treats specially)
    wg = SC.write_grid(tier)
    SC.model_and_replay(rep, "w", wg[:3] + [s for s in wg if s["name"] == "w_t115"], "c13_w_" + tier, ["AllDeleted", "DeadlockFree"],
                        liveness=False, variant="asan", key="write")
    # the output file fails at an arbitrary moment: every object is still released exactly once, close() returns
    SC.model_and_replay(rep, "w", SC.write_fault_grid(tier)[:1 if tier == "quick" else 4], "c13_wf_" + tier,
                        ["AllDeleted", "DeadlockFree", "FaultPrefix"], liveness=False, variant="asan", key="write-fault")
    rep.cov["distinct_nontrivial"] = sum(m["edges"] for m in rep.cov.get("m1", []))
    rep.assumptions += ["good()/eof() are compared only while a read session is open (they race with the worker by "
                        "design while writing)", "leaks are detected by LeakSanitizer's reachability analysis"]
