"""C01 — write-then-read returns the same objects, in order, for every configuration."""
import json
import os
import shutil
import vlib
from checks import codec
from checks import sesscheck as SC

LEVEL = "model_checking"


def known_codes(rep, recs):
    """type codes of classes with a listed known codec finding: they are left out of the file-level sequences
    (their defect is reported once, at object level)"""
    return sorted({r["code"] for r in recs for kf in rep.known if kf["key"].startswith("frame:%s:" % r["cls"])})


def file_records(tier, seed, skip, poison=None, variant="plain"):
    exes = vlib.build(variant, ["drv_codec"])
    d = os.path.join(vlib.WORK, "c01files")
    os.makedirs(d, exist_ok=True)
    args = ["files", d, seed, tier] + ([poison] if poison is not None else [])
    results, other, rc, err = vlib.run_driver(exes["drv_codec"], args, timeout=2400,
                                              env={"VERIF_SKIP_CODES": ",".join(map(str, skip))})
    if rc != 0:
        return None, dict(rc=rc, stderr=err[-600:])
    return [json.loads(ln[5:]) for ln in other if ln.startswith("FILE ")], None


def run(rep, tier, seed):
    rep.cov["rule"] = ("object level: for every class x payload shape x selector/scalar variant, decoding the encoding "
                       "gives the same class, every member the encoding depends on, every payload container, and "
                       "re-encodes to the same bytes (TLC validates the records against Framing.tla RoundTrip). File level: "
                       "sequences covering every class written through the real File and read back over compression "
                       "levels x container sizes 1 B .. 4 MiB x restore points (TLC: FileRoundTrip). Pipeline level: the "
                       "session specs show for every interleaving that the byte stream and the object order are "
                       "preserved (DoneDeliveredAll, FileOutUnique; edge-replayed)")
    recs, err = codec.frame_records(tier, seed)
    if recs is None:
        rep.violation("frames:crash", "codec driver failed: %s" % err, err)
        return
    rejected = codec.validate(rep, recs, "c01_obj_" + tier, "C01")
    byname = {r["name"]: r for r in recs}
    for nm in rejected:
        r = byname[nm]
        for k in codec.frame_kinds(r):
            rep.violation("frame:%s:%s" % (r["cls"], k), "Framing.tla (RoundTrip) rejects %s: %s" % (nm, r.get("diff", "")), r)
    rep.cov["evaluations"] += len(recs)
    rep.cov["traces_validated_against_impl"] += len(recs)
    rep.cov["classes"] = len({r["cls"] for r in recs})
    rep.cov["samples"].append(recs[len(recs) // 3])
    # file level
    skip = known_codes(rep, recs)
    frecs, err = file_records(tier, seed, skip)
    if frecs is None:
        rep.violation("files:crash", "file round-trip driver failed: %s" % err, err)
        return
    rejected = codec.validate(rep, frecs, "c01_file_" + tier, "C01F")
    byname = {r["name"]: r for r in frecs}
    for nm in rejected:
        r = byname[nm]
        what = "level%s:C%s" % ("0" if r["level"] == 0 else "z", "small" if r["C"] < 4096 else "big")
        rep.violation("file:%s" % what, "write-then-read through File differs for %s: delivered %d of %d, %d differ, eof ok=%s; %s"
                      % (nm, r["delivered"], r["n"], r["mismatched"], r["eofOk"], r.get("first", "")), r)
    rep.cov["evaluations"] += len(frecs)
    rep.cov["traces_validated_against_impl"] += len(frecs)
    rep.cov["files"] = len(frecs)
    rep.cov["file_skipped_codes"] = skip
    rep.cov["samples"].append(frecs[len(frecs) // 2])
    # pipeline level (all interleavings, small configurations)
    SC.model_and_replay(rep, "r", [s for s in SC.read_grid(tier) if s["params"]["NREADS"] < 0], "c01_r_" + tier,
                        ["DoneDeliveredAll", "DeliveredIsPrefix", "NullIsLast", "EofOnlyAfterLast"], liveness=False, key="read")
    SC.model_and_replay(rep, "w", SC.write_grid(tier), "c01_w_" + tier, ["FileOutUnique", "AllDeleted"], liveness=False, key="write")
    rep.cov["distinct_nontrivial"] = len({(r["cls"], r.get("shape")) for r in recs}) + len(frecs)
    SC.pair_sessions(rep, seed + 5, 1 if tier == "quick" else 6)
    SC.big_stream(rep)
    rep.assumptions += ["field VALUES are seeded samples (boundary + random); classes, payload-length residues, selector "
                        "ranges, levels and container-size classes are enumerated",
                        "equality at file level is against the object-level normal form decode(encode(o))"]
