"""Session-level checks built on spec/ReadSession.tla and spec/WriteSession.tla:
TLC (safety with edge log, liveness under weak fairness) + M1 edge replay on the
real File under the controlled scheduler + seeded random schedules at larger scale."""
import json
import os
import vlib
from checks import sessions as S


def can(i):
    return ["can", i]


def lobj(typ, osz, total, fill=0x11, hsz=16):
    """raw bytes of an object with a base header only (declared size osz, declared header size hsz, total bytes emitted)"""
    import struct
    b = bytearray([fill] * max(total, 16))
    b[0:4] = b"LOBJ"
    b[4:16] = struct.pack("<HHII", hsz, 1, osz, typ)
    return ["raw", "".join("%02x" % x for x in b[:total])]


def read_grid(tier, post=0):
    g = [
        # a known type whose declared size is below its layout: read 48 bytes, then seek back by the difference
        dict(name="r_undersized", params=dict(B=64, Q=1, POST=post, NREADS=-1), items=[lobj(1, 44, 48), can(2)], conts=[96]),
        dict(name="r_aligned", params=dict(B=48, Q=1, POST=post, NREADS=-1), items=[can(1), can(2)], conts=[48, 48]),
        dict(name="r_span", params=dict(B=64, Q=2, POST=post, NREADS=-1), items=[can(1), can(2)], conts=[30, 66]),
        dict(name="r_close1", params=dict(B=48, Q=1, POST=post, NREADS=1), items=[can(1), can(2)], conts=[48, 48]),
        dict(name="r_close0", params=dict(B=200, Q=2, POST=post, NREADS=0), items=[can(1), can(2)], conts=[96]),
        # pipeline full at close: queue full, stream buffer full, decompressor blocked
        dict(name="r_closefull", params=dict(B=48, Q=1, POST=post, NREADS=1),
             items=[can(1), can(2), can(3)], conts=[48, 48, 48], spur=1),
        # unknown object skipped beyond the buffered data (F7), tiny containers
        dict(name="r_unkskip", params=dict(B=32, Q=2, POST=post, NREADS=-1),
             items=[can(1), ["unk", 200, 40], can(2)], conts=[16] * 8 + [8]),
        # one read larger than buffer + container (F2)
        dict(name="r_bigread", params=dict(B=32, Q=2, POST=post, NREADS=-1),
             items=[["apptext", 1, 60]], conts=[16] * 6 + [12]),
        # restore-point object in the stream: delivered, not counted
        dict(name="r_t115", params=dict(B=64, Q=2, POST=post, NREADS=-1), items=[can(1), ["t115", 2]], conts=[112]),
    ]
    if tier == "thorough":
        g += [
            dict(name="r_three", params=dict(B=48, Q=1, POST=post, NREADS=-1), items=[can(1), can(2), can(3)],
                 conts=[48, 48, 48]),
            dict(name="r_span3", params=dict(B=32, Q=2, POST=post, NREADS=-1), items=[can(i) for i in range(1, 5)],
                 conts=[16] * 12),
            dict(name="r_q3", params=dict(B=96, Q=3, POST=post, NREADS=2), items=[can(i) for i in range(1, 5)],
                 conts=[96, 96]),
            dict(name="r_close2of3", params=dict(B=48, Q=2, POST=post, NREADS=2), items=[can(1), can(2), can(3)],
                 conts=[48, 48, 48]),
            dict(name="r_onecont", params=dict(B=16, Q=1, POST=post, NREADS=-1), items=[can(1), can(2), can(3)],
                 conts=[144]),
        ]
    return g


def write_grid(tier, post=0):
    g = [
        dict(name="w_eq", params=dict(B=48, Q=1, C=48, POST=post, RP=1), items=[can(1), can(2)], spur=1),
        dict(name="w_span", params=dict(B=30, Q=2, C=30, POST=post, RP=0), items=[can(1), can(2)]),
        # container size above the buffer size (F1)
        dict(name="w_cbig", params=dict(B=48, Q=1, C=100, POST=post, RP=1), items=[can(1), can(2), can(3)]),
        dict(name="w_empty", params=dict(B=48, Q=1, C=48, POST=post, RP=1), items=[]),
        dict(name="w_t115", params=dict(B=16, Q=1, C=200, POST=post, RP=0), items=[can(1), ["t115", 2]]),
    ]
    if tier == "thorough":
        g += [
            dict(name="w_many", params=dict(B=48, Q=1, C=48, POST=post, RP=0), items=[can(i) for i in range(1, 7)]),
            dict(name="w_q3", params=dict(B=96, Q=3, C=40, POST=post, RP=1), items=[can(i) for i in range(1, 5)]),
            dict(name="w_c1", params=dict(B=8, Q=1, C=7, POST=post, RP=1), items=[can(1)]),
            dict(name="w_text", params=dict(B=32, Q=2, C=64, POST=post, RP=1), items=[["apptext", 1, 50], can(2)]),
        ]
    return g


def write_fault_grid(tier):
    """Write sessions in which the output file fails (badbit) at an arbitrary moment: TLC places the fault between any
    two steps of any interleaving; every such edge is replayed on the real File (the driver sets badbit on the real
    fstream between two scheduler steps)."""
    g = [
        dict(name="wf_eq", params=dict(B=48, Q=1, C=48, POST=0, RP=1), items=[can(1), can(2)], fault=1),
        # more data after the fault than buffer + queue hold: the workers must keep draining
        dict(name="wf_many", params=dict(B=30, Q=1, C=30, POST=0, RP=0), items=[can(1), can(2), can(3)], fault=1),
    ]
    if tier == "thorough":
        g += [
            dict(name="wf_cbig", params=dict(B=48, Q=1, C=100, POST=0, RP=1), items=[can(1), can(2), can(3)], fault=1),
            dict(name="wf_t115", params=dict(B=16, Q=1, C=200, POST=0, RP=1), items=[can(1), ["t115", 2]], fault=1),
            dict(name="wf_empty", params=dict(B=48, Q=1, C=48, POST=0, RP=1), items=[], fault=1),
        ]
    return g


FAULT_INV = ["DeadlockFree", "FaultPrefix", "FileOutUnique", "StatsExact", "NoOversize", "AllDeleted", "QueueBounded",
             "HeldBounded"]

READ_INV = ["DeadlockFree", "DeliveredIsPrefix", "NullIsLast", "EofOnlyAfterLast", "DoneDeliveredAll",
            "PipelineOrder", "StatsExact", "Accounted", "QueueBounded", "HeldBounded", "NoStaleAccess"]
WRITE_INV = ["DeadlockFree", "FileOutUnique", "NoOversize", "StatsExact", "AllDeleted", "QueueBounded", "HeldBounded"]


name_module = {}


def _cfg(name, spec, invariants, props, edge):
    p = os.path.join(vlib.WORK, "cfg", name + ".cfg")
    os.makedirs(os.path.dirname(p), exist_ok=True)
    with open(p, "w") as f:
        f.write("SPECIFICATION %s\nCONSTANTS Configs <- MCConfigs\n" % spec)
        if invariants:
            f.write("INVARIANTS %s\n" % " ".join(invariants))
        if props:
            f.write("PROPERTIES %s\n" % " ".join(props))
        f.write("VIEW View\n")
        if spec in ("Spec", "FairSpec") and "ReadSession" in name_module.get(name, ""):
            f.write("CONSTRAINT BoundDelivery\n")
        if edge:
            f.write("ACTION_CONSTRAINT EdgeLog\nCONSTRAINT InitLog\n")
        f.write("CHECK_DEADLOCK FALSE\n")
    return p


def prepare(kind, scs, tag, variant="sched"):
    """kind: 'r' or 'w'.  Builds the driver, writes the scenario file, gets the descriptions."""
    drv = "drv_rsession" if kind == "r" else "drv_wsession"
    exes = vlib.build(variant, [drv])
    scen = os.path.join(vlib.WORK, "sessions", tag + ".scen")
    S.write_scenarios(scen, scs)
    descs = S.describe(exes[drv], scen)
    for d in descs:
        if kind == "r":
            S.finish_desc(d)
        else:
            d["held"] = write_held_bound(d)
            d.setdefault("spur", 0)
    spur = {s["name"]: s.get("spur", 0) for s in scs}
    fault = {s["name"]: s.get("fault", 0) for s in scs}
    for d in descs:
        d["spur"] = spur.get(d["name"], 0)
        if kind == "w":
            d["fault"] = fault.get(d["name"], 0)     # 1: the output file may fail at any moment (WriteSession!IOFail)
    return exes[drv], scen, descs


def write_held_bound(d):
    """buffer (back-pressure is evaluated once per write call) + the largest single write + one container of
    slack for the container being filled + what a blocked reader demands (a whole container)."""
    maxw = max([max(o["ops"] + [0]) for o in d["objs"]] + [0])
    return max(d["B"], d["C"]) + maxw + 2 * d["C"]


def model_and_replay(rep, kind, scs, tag, invariants, liveness=True, variant="sched", key=None, timeout=1500, refine=False):
    """Returns dict with tlc stats; reports violations into rep."""
    key = key or tag
    module = "ReadSession" if kind == "r" else "WriteSession"
    exe, scen, descs = prepare(kind, scs, tag, variant)
    recs = ",\n".join(S.tla(d) for d in descs)
    mc = vlib.write_mc("MC_" + tag, module, "MCConfigs == {%s}" % recs)
    name_module[tag] = module
    name_module[tag + "_live"] = module
    # 1. safety, all interleavings, with the edge log
    # (refine: together with the action property "every step is a step of the sequential contract FileContract.tla")
    res = vlib.run_tlc(mc, _cfg(tag, "Spec", invariants, ["RefinesContract"] if refine else [], True), tag, workers=16,
                       timeout=timeout, heap="16g")
    rep.add_tlc(res)
    if not res["ok"]:
        if res["violated"] and "violated" in res["violated"]:
            # the SPEC (a transcription of the code under test bound by M1) violates the property
            what = res["violated"].split()[1]
            if "FileContract" in res["violated"]:
                what = "RefinesContract"
            rep.violation("%s:spec:%s" % (key, what),
                          "TLC: %s on %s for the configurations of '%s'" % (res["violated"], module, tag),
                          dict(tlc=S.tlc_violation_trace(res)[:6000]))
            return None
        vlib.tlc_must_pass(res, tag)
    # 2. liveness under weak fairness (no edge log)
    if liveness:
        res2 = vlib.run_tlc(mc, _cfg(tag + "_live", "FairSpec", [], ["Termination"], False), tag + "_live",
                            workers=16, timeout=timeout, heap="16g")
        rep.add_tlc(res2)
        if not res2["ok"]:
            if res2["violated"]:
                rep.violation("%s:spec:Termination" % key,
                              "TLC: %s (Termination under weak fairness) on %s" % (res2["violated"], module),
                              dict(tlc=S.tlc_violation_trace(res2)[:6000]))
                return None
            vlib.tlc_must_pass(res2, tag + " liveness")
    # 3. M1: every edge on the real code
    paths, stats = vlib.path_cover(res["lines"])
    res["lines"] = None
    agg = vlib.replay_paths(exe, paths, S.fmt_action, tag, extra_args=["replay", scen], timeout=400)
    rep.cov["evaluations"] += agg["steps"]
    rep.cov["traces_validated_against_impl"] += agg["paths"]
    rep.cov.setdefault("m1", []).append(dict(spec=module, tag=tag, variant=variant, configs=[d["name"] for d in descs],
                                            **stats, replayed_paths=agg["paths"], replayed_steps=agg["steps"]))
    if paths:
        p = paths[len(paths) // 2]
        rep.cov["samples"].append(dict(kind="M1 path (%s)" % module, scenario=p[0]["arg"],
                                       schedule="".join(json.loads(a)["op"] for a, _ in p[2])[:200]))
    if agg["crashed"]:
        c = agg["crashed"][0]
        rep.violation("%s:m1:crash" % key, "driver crashed/sanitizer report during edge replay (%s): rc=%s %s"
                      % (variant, c.get("rc"), san_summary(c.get("stderr") or "")), c)
    elif agg["mismatches"]:
        f = agg["first"]
        # The strict replay is bound to the synchronisation structure (number and order of critical sections and
        # atomic accesses).  Before a mismatch is reported, the same schedules are re-run recording only CHANGES of the
        # projected state, and TLC checks that every recorded execution is a behaviour of the spec up to invisible
        # steps (all invariants evaluated on the way).  If that holds for every schedule, the code does to the shared
        # state what the spec says - only its synchronisation structure was refactored - and no alarm is raised.
        weak = weak_validate(rep, kind, module, descs, exe, scen, paths, tag, invariants)
        rep.cov.setdefault("m1_structure_notes", []).append(dict(tag=tag, first_mismatch=str(f)[:600], weak=weak))
        if weak["ok"]:
            print("NOTE property=%s the synchronisation structure of the code differs from %s (strict edge replay "
                  "mismatch at '%s'); all %d replayed schedules are behaviours of the spec up to invisible steps"
                  % (rep.pid, module, f.get("act"), weak["accepted"]))
        else:
            rep.violation("%s:m1:mismatch" % key, "real File leaves the %s graph at '%s': expected %s got %s; weak trace "
                          "validation: %s" % (module, f.get("act"), json.dumps(f.get("expected"))[:300],
                                              json.dumps(f.get("got"))[:300], weak["why"]), dict(first=f, weak=weak))
    elif agg["paths"] != stats["paths"]:
        raise vlib.ToolError("replayed %d of %d paths" % (agg["paths"], stats["paths"]))
    return dict(stats=stats, agg=agg)


def weak_validate(rep, kind, module, descs, exe, scen, paths, tag, invariants, max_paths=1500):
    """see model_and_replay: returns dict(ok, accepted, traces, why)"""
    import random as _r
    sel = paths if len(paths) <= max_paths else _r.Random(1).sample(paths, max_paths)
    d = os.path.join(vlib.WORK, "weak", tag)
    import shutil
    shutil.rmtree(d, ignore_errors=True)
    os.makedirs(d)
    nproc = 8
    chunks = [sel[i::nproc] for i in range(nproc) if sel[i::nproc]]
    outs = []
    from concurrent.futures import ThreadPoolExecutor

    def one(i):
        pf = os.path.join(d, "paths_%d.txt" % i)
        vlib.write_paths(chunks[i], pf, S.fmt_action)
        of = os.path.join(d, "traces_%d.ndjson" % i)
        return of, vlib.run_driver(exe, ["weak", scen, pf, of], timeout=900)
    hang = None
    total = 0
    with ThreadPoolExecutor(max_workers=nproc) as ex:
        for of, (results, other, rc, err) in ex.map(one, range(len(chunks))):
            if rc != 0 or not results:
                return dict(ok=False, accepted=0, traces=0, why="weak driver failed rc=%s %s" % (rc, san_summary(err)))
            total += results[0]["paths"]
            if results[0]["mismatches"] and not hang:
                hang = results[0].get("first")
            outs.append(of)
    if hang:
        return dict(ok=False, accepted=0, traces=total, why="a replayed schedule does not terminate: %s" % str(hang)[:300])
    # TLC: every recorded execution must be accepted
    wmodule = module + "Weak"
    recs = ",\n".join(S.tla(x) for x in descs)
    accepted = 0
    for i, of in enumerate(outs):
        mc = vlib.write_mc("MC_%s_weak_%d" % (tag, i), wmodule, "MCConfigs == {%s}" % recs)
        cfg = os.path.join(vlib.WORK, "cfg", "%s_weak_%d.cfg" % (tag, i))
        with open(cfg, "w") as fh:
            fh.write("SPECIFICATION WSpec\nCONSTANTS Configs <- MCConfigs\nINVARIANTS Accepted %s\nCHECK_DEADLOCK FALSE\n"
                     % " ".join(x for x in invariants))
        res = vlib.run_tlc(mc, cfg, "%s_weak_%d" % (tag, i), workers=4, timeout=1200, env={"TRACE": of}, heap="8g")
        rep.add_tlc(res)
        if res["violated"]:
            return dict(ok=False, accepted=accepted, traces=total,
                        why="a recorded execution violates the spec: %s" % res["violated"])
        if res["rc"] != 0:
            vlib.tlc_must_pass(res, "%s_weak_%d" % (tag, i))      # timeout / tool failure is not a verdict (exit 2)
        acc = set()
        for ln in res["printed"]:
            if ln.startswith('<<"ACCEPTED"'):
                acc.add(ln.strip())
        n = sum(1 for _ in open(of))
        accepted += len(acc)
        if len(acc) != n:
            return dict(ok=False, accepted=accepted, traces=total,
                        why="%d of %d recorded executions are not behaviours of %s even up to invisible steps"
                            % (n - len(acc), n, module))
    return dict(ok=True, accepted=accepted, traces=total, why="")


def san_summary(err):
    """the lines of a sanitizer report that say what and where"""
    import re
    keep = [ln.strip() for ln in err.splitlines()
            if re.search(r"ERROR: \w+Sanitizer|SUMMARY:|WARNING: ThreadSanitizer|#0 |#1 |runtime error", ln)]
    return " | ".join(keep[:6]) if keep else err[-400:].replace("\n", " | ")


def random_runs(rep, kind, scs, tag, seed, runs, variant="sched", key=None, env=None, timeout=1500):
    """Seeded random schedules on (larger) sessions; returns the RESULT dicts."""
    key = key or tag
    exe, scen, descs = prepare(kind, scs, tag, variant)
    results, other, rc, err = vlib.run_driver(exe, ["random", scen, seed, runs], timeout=timeout, env=env)
    if rc != 0 or len(results) != len(scs):
        rep.violation("%s:random:crash" % key, "random-schedule driver failed rc=%s %s" % (rc, err[-500:].replace("\n", " | ")),
                      dict(rc=rc, stderr=err))
        return results, descs
    for r in results:
        rep.cov["evaluations"] += r.get("steps", 0)
        rep.cov["traces_validated_against_impl"] += r.get("runs", 0)
        if r.get("deadlock") or r.get("livelock"):
            rep.violation("%s:random:%s:hang" % (key, r["scen"]),
                          "session '%s': %d dead-locked, %d live-locked of %d seeded schedules; first: %s"
                          % (r["scen"], r.get("deadlock", 0), r.get("livelock", 0), r["runs"],
                             json.dumps(r.get("first", {}).get("state"))[:400]), r)
    return results, descs


def trace_validate(rep, kind, scs, tag, seed, runs, invariants, key=None, variant="sched"):
    """M2: real sessions (larger than the exhaustive configurations) under seeded random schedules, one ndjson line
    per scheduler step; TLC checks that each recorded execution is a behaviour of the session spec and evaluates the
    invariants in every state of it."""
    key = key or tag
    module = "ReadSessionTrace" if kind == "r" else "WriteSessionTrace"
    exe, scen, descs = prepare(kind, scs, tag, variant)
    d = os.path.join(vlib.WORK, "traces")
    os.makedirs(d, exist_ok=True)
    tr = os.path.join(d, tag + ".ndjson")
    results, other, rc, err = vlib.run_driver(exe, ["random", scen, seed, runs, tr], timeout=1500,
                                              env={"VERIF_BUDGET": "400000"})
    if rc != 0 or len(results) != len(scs):
        rep.violation("%s:trace:crash" % key, "trace driver failed rc=%s %s" % (rc, err[-400:]), dict(rc=rc))
        return
    for r in results:
        if r.get("deadlock") or r.get("livelock"):
            rep.violation("%s:trace:%s:hang" % (key, r["scen"]), "session '%s' hangs under a seeded schedule: %s"
                          % (r["scen"], json.dumps(r.get("first", {}).get("state"))[:300]), r)
    # split into one trace per run
    traces = []
    cur = None
    with open(tr) as f:
        for ln in f:
            if ln.startswith('{"e":"Reset"'):
                cur = [json.loads(ln)["scen"], []]
                traces.append(cur)
            cur[1].append(ln)
    byname = {dd["name"]: dd for dd in descs}
    from concurrent.futures import ThreadPoolExecutor

    def one(i):
        name, lines = traces[i]
        p = os.path.join(d, "%s_%d.ndjson" % (tag, i))
        with open(p, "w") as f:
            f.writelines(lines)
        mc = vlib.write_mc("MC_%s_%d" % (tag, i), module, "MCConfigs == {%s}" % S.tla(byname[name]))
        cfg = os.path.join(vlib.WORK, "cfg", "%s_%d.cfg" % (tag, i))
        with open(cfg, "w") as f:
            f.write("SPECIFICATION TSpec\nCONSTANTS Configs <- MCConfigs\nINVARIANTS NotAccepted %s\nCHECK_DEADLOCK FALSE\n"
                    % " ".join(invariants))
        res = vlib.run_tlc(mc, cfg, "%s_%d" % (tag, i), workers=1, timeout=900, env={"TRACE": p}, heap="4g")
        return i, name, len(lines), res

    ok = 0
    rejected = []
    with ThreadPoolExecutor(max_workers=8) as ex:
        for i, name, n, res in ex.map(one, range(len(traces))):
            rep.add_tlc(res)
            v = res["violated"] or ""
            if "NotAccepted" in v:
                ok += 1                      # the whole trace was consumed
                rep.cov["evaluations"] += n
            elif "violated" in v:
                rep.violation("%s:trace:%s:%s" % (key, name, v.split()[1]), "recorded execution of '%s' (run %d, %d steps) "
                              "violates %s" % (name, i, n, v), dict(trace=os.path.join(d, "%s_%d.ndjson" % (tag, i))))
            elif res["rc"] == 0:
                # TLC finished without reaching the end of the trace: some step is not a step of the spec.
                # Second opinion (see model_and_replay): is the execution a behaviour up to invisible steps?
                rejected.append((i, name, n, res["distinct"]))
            else:
                vlib.tlc_must_pass(res, "%s_%d" % (tag, i))
    weak_ok = 0
    if rejected:
        base = module[:-5]
        wf = os.path.join(d, tag + "_weak.ndjson")
        with open(wf, "w") as f:
            for (i, name, n, matched) in rejected:
                steps = []
                for ln in traces[i][1]:
                    pt = json.loads(ln)["pt"]
                    if not steps or steps[-1] != pt:
                        steps.append(pt)
                f.write(json.dumps(dict(scen=name, steps=steps)) + "\n")
        mc = vlib.write_mc("MC_%s_weak" % tag, base + "Weak", "MCConfigs == {%s}" % ",\n".join(S.tla(dd) for dd in descs))
        cfg = os.path.join(vlib.WORK, "cfg", "%s_weak.cfg" % tag)
        with open(cfg, "w") as f:
            f.write("SPECIFICATION WSpec\nCONSTANTS Configs <- MCConfigs\nINVARIANTS Accepted %s\nCHECK_DEADLOCK FALSE\n"
                    % " ".join(invariants))
        res = vlib.run_tlc(mc, cfg, tag + "_weak", workers=4, timeout=1200, env={"TRACE": wf}, heap="8g")
        rep.add_tlc(res)
        if res["rc"] != 0 and not res["violated"]:
            vlib.tlc_must_pass(res, tag + "_weak")      # timeout / tool failure is not a verdict
        acc = set()
        for ln in res["printed"]:
            if ln.startswith('<<"ACCEPTED"'):
                acc.add(int(ln.split(",")[1].strip(" >\n")))
        for j, (i, name, n, matched) in enumerate(rejected):
            if (j + 1) in acc and not res["violated"]:
                weak_ok += 1
            else:
                rep.violation("%s:trace:%s:rejected" % (key, name), "recorded execution of '%s' (run %d) is not a behaviour "
                              "of %s, not even up to invisible steps (strict: %d of %d lines matched%s)"
                              % (name, i, base, matched, n, "; " + res["violated"] if res["violated"] else ""),
                              dict(trace=os.path.join(d, "%s_%d.ndjson" % (tag, i)), matched=matched))
        if weak_ok:
            print("NOTE property=%s %d recorded execution(s) of %s differ from the spec only in invisible steps "
                  "(synchronisation structure)" % (rep.pid, weak_ok, tag))
    rep.cov["traces_validated_against_impl"] += ok + weak_ok
    rep.cov.setdefault("m2", []).append(dict(spec=module, tag=tag, traces=len(traces), accepted=ok, accepted_weakly=weak_ok))
    if traces:
        rep.cov["samples"].append(dict(kind="M2 trace line", line=json.loads(traces[0][1][min(5, len(traces[0][1]) - 1)])))


def pair_sessions(rep, seed, rounds):
    """Other activity in the process: three write/read sessions at the same time (one application thread each, native
    threads) must write byte for byte what each of them writes when it runs alone, and read back their own objects."""
    exes = vlib.build("plain", ["drv_native"])
    nd = os.path.join(vlib.WORK, "native")
    os.makedirs(nd, exist_ok=True)
    results, other, rc, err = vlib.run_driver(exes["drv_native"], ["pair", nd, seed, rounds], timeout=1500)
    if rc != 0 or not results:
        rep.violation("pair:crash", "three write/read sessions at the same time: driver failed rc=%s %s"
                      % (rc, err[-400:].replace("\n", " | ")), dict(rc=rc))
        return
    r = results[0]
    rep.cov["evaluations"] += r["objects"]
    rep.cov["concurrent_sessions"] = r["sessions"]
    if r["differ"] or r["bad"]:
        rep.violation("pair:differ", "a session writes different bytes (or reads wrong objects) when other sessions run in "
                      "the same process at the same time: %s" % r.get("first", r), r)


def big_stream(rep):
    """Positions beyond 2^32: 4106 x 1 MiB of (compressible) text objects and then a default-constructed object of every
    class are written through File and read back (native threads): every object comes back, in order, with its class."""
    exes = vlib.build("plain", ["drv_native"])
    nd = os.path.join(vlib.WORK, "native")
    os.makedirs(nd, exist_ok=True)
    results, other, rc, err = vlib.run_driver(exes["drv_native"], ["big", nd, 0, 0], timeout=600)
    if rc != 0 or not results:
        rep.violation("big:crash", "4 GiB session: driver failed or did not end rc=%s %s" % (rc, err[-300:].replace("\n", " | ")), dict(rc=rc))
        return
    r = results[0]
    rep.cov["evaluations"] += r["objects"]
    rep.cov["big_stream_objects"] = r["objects"]
    if r["bad"] or r["objects"] != r["expected"]:
        rep.violation("big:objects", "a stream longer than 4 GiB: %d of %d objects read back, %d wrong (%s)"
                      % (r["objects"], r["expected"], r["bad"], r.get("first", "")), r)
