"""C12 — buffered data stays bounded no matter how long the file is."""
import vlib
from checks import sesscheck as SC

LEVEL = "model_checking"


def text(i, n):
    return ["apptext", i, n]


def small_read(tier):
    can = SC.can
    g = [
        # objects spanning three containers each, N = 12 containers (F6)
        dict(name="r_span3", params=dict(B=32, Q=2, NREADS=-1), items=[can(i) for i in range(1, 5)], conts=[16] * 12),
        dict(name="r_n4", params=dict(B=48, Q=1, NREADS=-1), items=[can(i) for i in range(1, 5)], conts=[48] * 4),
        dict(name="r_stall", params=dict(B=48, Q=1, NREADS=1), items=[can(i) for i in range(1, 5)], conts=[96, 96], spur=1),
        # a hand-made file: the second stored container carries 40 bytes more than it declares.  The accounting
        # (flow control, positions, dropOldData) counts declared sizes, so such a container must be refused
        dict(name="r_surplus", params=dict(B=48, Q=1, NREADS=-1, METHOD=0, BADCONT=1, SURPLUS=40), items=[can(i) for i in range(1, 4)],
             conts=[48, 48, 48]),
    ]
    if tier == "thorough":
        g += [dict(name="r_n8", params=dict(B=32, Q=2, NREADS=-1), items=[can(i) for i in range(1, 7)], conts=[36] * 8)]
    return g


def small_write(tier):
    can = SC.can
    g = [
        # the compressor catches up after every container (F11)
        dict(name="w_catchup", params=dict(B=48, Q=1, C=48, RP=0), items=[can(i) for i in range(1, 7)]),
        dict(name="w_span", params=dict(B=30, Q=2, C=20, RP=1), items=[can(i) for i in range(1, 4)], spur=1),
    ]
    if tier == "thorough":
        g += [dict(name="w_n10", params=dict(B=48, Q=2, C=48, RP=0), items=[can(i) for i in range(1, 11)])]
    return g


def scale(tier):
    """(label, C, N containers, object size) -> read scenario and write scenario of about N containers"""
    grid = [(4096, 4, 1000), (4096, 72, 1000), (4096, 160, 1000), (65536, 4, 3000), (65536, 32, 3000),
            (4096, 32, 3 * 4096)]
    if tier == "thorough":
        grid += [(4096, 256, 1000), (0x100000, 4, 20000), (0x100000, 16, 20000), (65536, 128, 3 * 65536)]
    rs, ws = [], []
    for (C, N, osz) in grid:
        n = max(1, (C * N) // (osz + 48))
        items = [text(i, osz) for i in range(1, n + 1)]
        nm = "c%d_n%d_o%d" % (C, N, osz)
        rs.append(dict(name="R_" + nm, params=dict(NREADS=-1, CHOP=C), items=items, meta=(C, N, osz)))
        ws.append(dict(name="W_" + nm, params=dict(C=C, RP=1, LEVEL=0), items=items, meta=(C, N, osz)))
    return rs, ws


def run(rep, tier, seed):
    rep.cov["rule"] = ("HeldBounded (bytes in held containers <= a bound independent of the number of containers) and "
                       "QueueBounded for every interleaving of the small configurations (TLC) with edge replay on the "
                       "real File; real-scale sessions of N = 4..256 containers under seeded random schedules that "
                       "starve the application: peak held bytes / queue length measured after every step")
    SC.model_and_replay(rep, "r", small_read(tier), "c12_r_" + tier, ["HeldBounded", "QueueBounded"], liveness=False, key="read")
    SC.model_and_replay(rep, "w", small_write(tier), "c12_w_" + tier, ["HeldBounded", "QueueBounded"], liveness=False, key="write")
    from checks.c06 import m2_read, m2_write
    nt = 3 if tier == "quick" else 12
    SC.trace_validate(rep, "r", m2_read(tier), "c12_Tr_" + tier, seed + 2, nt, ["HeldBounded", "QueueBounded"], key="read")
    SC.trace_validate(rep, "w", m2_write(tier), "c12_Tw_" + tier, seed + 2, nt, ["HeldBounded", "QueueBounded"], key="write")
    rs, ws = scale(tier)
    B, Q = 0x20000, 10
    runs = 4 if tier == "quick" else 16
    peaks = []
    for kind, scs in (("r", rs), ("w", ws)):
        meta = {s["name"]: s.pop("meta") for s in scs}
        res, _ = SC.random_runs(rep, kind, scs, "c12_%s_%s" % (kind.upper(), tier), seed, runs, key=kind)
        for r in res:
            C, N, osz = meta[r["scen"]]
            obj = osz + 64
            # buffer (or one object if larger: a blocked read publishes its demand) + container slack
            bound = max(B, obj) + 2 * max(C, 1) + obj + (C if kind == "w" else 0)
            peaks.append(dict(scen=r["scen"], C=C, N=N, obj=obj, maxHeld=r.get("maxHeld"), maxQ=r.get("maxQ"), bound=bound))
            if r.get("maxHeld", 0) > bound:
                rep.violation("%s:scale:%s:held" % (kind, r["scen"]), "peak %d bytes held in log containers exceeds the "
                              "bound %d (B=%d C=%d N=%d object=%d)" % (r["maxHeld"], bound, B, C, N, obj), r)
            if r.get("maxQ", 0) > Q:
                rep.violation("%s:scale:%s:queue" % (kind, r["scen"]), "queue length %d exceeds capacity %d" % (r["maxQ"], Q), r)
    # growth with N for equal (C, object size)
    for a in peaks:
        for b in peaks:
            # only files that are larger than everything the pipeline may hold are comparable
            if a["scen"][0] == b["scen"][0] and a["C"] == b["C"] and a["obj"] == b["obj"] and b["N"] > a["N"] \
                    and a["C"] * a["N"] >= 2 * B:
                if b["maxHeld"] > a["maxHeld"] + 2 * a["C"] + a["obj"]:
                    rep.violation("scale:growth:%s" % b["scen"], "peak held grows with the number of containers: "
                                  "%s=%d vs %s=%d" % (a["scen"], a["maxHeld"], b["scen"], b["maxHeld"]), dict(a=a, b=b))
    rep.cov["peaks"] = peaks
    rep.cov["distinct_nontrivial"] = sum(m["edges"] for m in rep.cov.get("m1", []))
    rep.assumptions += ["held data = sum of uncompressedFileSize over UncompressedFile::m_data plus queue length; "
                        "heap outside these two structures is not measured",
                        "bound: max(B, object) + 2C + object (+C when writing)"]
