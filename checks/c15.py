"""C15 — the in-memory stream is a byte FIFO with iostream-like state for any chunking."""
import os
import time
import vlib
from checks.c16 import write_cfg

LEVEL = "model_checking"

OPS_A = ["write", "writeC", "read", "seekg", "nextLogContainer", "dropOldData", "setDefaultLogContainerSize"]
OPS_B = ["write", "writeC", "read", "seekg", "dropOldData", "setFileSize", "abort", "setBufferSize"]

# name: (MaxPos, MaxCont, ops, WriteSizes, ContSizes, ReadSizes, Seeks, Cs, Bufs, Ends)
CONFIGS = {
    "quick": {
        "geometry": (4, 3, OPS_A, [0, 1, 2, 4], [0, 1, 3], [0, 1, 3], [-2, -1, 2], [1, 2, 3], ["UInf"], [0]),
        "flags": (5, 3, OPS_B, [0, 1, 3], [2], [0, 1, 3], [-1, 2], [2], [2, "UInf"], [0, 2, 4, 5]),
    },
    "thorough": {
        "geometry": (5, 3, OPS_A, [0, 1, 2, 4], [0, 1, 3], [0, 1, 3], [-2, -1, 2], [1, 2, 3], ["UInf"], [0]),
        # (sized for the unrestricted write(container): ~3 M + ~1 M transitions, each one replayed)
        "flags": (5, 3, OPS_B + ["nextLogContainer"], [0, 1, 3], [2], [0, 1, 3], [-2, -1, 2], [2, 3],
                  [2, "UInf"], [0, 2, 4, 5]),
        "flags0": (4, 3, OPS_B + ["nextLogContainer"], [0, 1, 3], [0, 2], [0, 1, 3], [-1, 2], [2],
                   [1, 2, "UInf"], [0, 2, 4]),
    },
}

CFG = """SPECIFICATION Spec
CONSTANTS
  MaxPos = %d
  MaxCont = %d
  Ops <- MCOps
  Ends <- MCEnds
  WriteSizes <- MCWriteSizes
  ContSizes <- MCContSizes
  ReadSizes <- MCReadSizes
  Seeks <- MCSeeks
  Cs <- MCCs
  Bufs <- MCBufs
INVARIANTS Geometry Covered
PROPERTIES DropOnlyConsumed ReadCounts Flags Positions EndFollowsWrite
VIEW View
%s
CHECK_DEADLOCK FALSE
"""


def fmt_action(a):
    return "%s %s" % (a["op"], a["arg"])


def mc_module(name, c):
    (maxpos, maxcont, ops, ws, cs, rs, seeks, Cs, bufs, ends) = c
    defs = "MCOps == {%s}\n" % ",".join('"%s"' % o for o in ops)
    for nm, x in (("WriteSizes", ws), ("ContSizes", cs), ("ReadSizes", rs), ("Seeks", seeks), ("Cs", Cs),
                  ("Bufs", bufs), ("Ends", ends)):
        defs += "MC%s == {%s}\n" % (nm, ",".join(map(str, x)))
    return vlib.write_mc("MC_UFS_" + name, "UncompressedFileSeq", defs)


def seq_part(rep, tier):
    exes = vlib.build("plain", ["drv_uf_seq"])
    for name, c in CONFIGS[tier].items():
        mc = mc_module(name + "_" + tier, c)
        cfg = write_cfg("UFS_%s_%s.cfg" % (name, tier),
                        CFG % (c[0], c[1], "ACTION_CONSTRAINT EdgeLog\nCONSTRAINT InitLog"))
        res = vlib.run_tlc(mc, cfg, "c15_%s_%s" % (name, tier), workers=16, timeout=1500, heap="16g")
        vlib.tlc_must_pass(res, "UncompressedFileSeq " + name)
        rep.add_tlc(res)
        paths, stats = vlib.path_cover(res["lines"])
        res["lines"] = None
        agg = vlib.replay_paths(exes["drv_uf_seq"], paths, fmt_action, "c15_" + name)
        rep.cov["evaluations"] += agg["steps"]
        rep.cov["traces_validated_against_impl"] += agg["paths"]
        rep.cov.setdefault("m1", []).append(dict(spec="UncompressedFileSeq", config=name, **stats,
                                                replayed_paths=agg["paths"], replayed_steps=agg["steps"]))
        if paths:
            p = paths[len(paths) // 3]
            rep.cov["samples"].append(dict(kind="M1 path (UncompressedFileSeq/%s)" % name, init=p[0],
                                           steps=[fmt_action(vlib.json.loads(a)) for a, _ in p[2]][:16]))
        if agg["crashed"]:
            rep.violation("seq:%s:crash" % name, "driver crashed: %s" % agg["crashed"][0], agg["crashed"][0])
        elif agg["mismatches"]:
            rep.violation("seq:%s:mismatch" % name, "real UncompressedFile leaves the spec graph: %s" % agg["first"],
                          agg["first"])
        elif agg["paths"] != stats["paths"]:
            raise vlib.ToolError("replayed %d of %d paths" % (agg["paths"], stats["paths"]))


def conc_grid(tier):
    """every order relation between read size, chunk size, container size and buffer size"""
    g = []

    def add(name, B, C, mode, writes, reads, abort=False):
        g.append(dict(name=name, B=B, C=C, mode=mode, writes=writes, reads=reads, abort=abort))
    for (B, C) in ((2, 3), (3, 2), (3, 3), (1, 4)) if tier == "quick" else ((2, 3), (3, 2), (3, 3), (1, 4), (4, 1), (2, 2), (5, 3)):
        # byte chunks below / at / above the buffer and the container size; reads likewise, one larger than B + C
        add("b_%d_%d_small" % (B, C), B, C, "bytes", [1, 2, 1], [2, 2])
        add("b_%d_%d_bigread" % (B, C), B, C, "bytes", [2, 2, 2, 2], [B + C + 2, 1])
        add("b_%d_%d_bigwrite" % (B, C), B, C, "bytes", [B + C + 2, 1], [1, 2, B + C])
        add("b_%d_%d_excess" % (B, C), B, C, "bytes", [2, 1], [2, 2, 1])        # the reader asks for more than is written
        # whole containers (read mode of File): reader needs several containers at once
        add("c_%d_%d_span" % (B, C), B, C, "conts", [C, C, C], [1, 2 * C, C - 1])
        add("c_%d_%d_abort" % (B, C), B, C, "conts", [C, C, C], [2 * C + 1, C], abort=True)
    add("b_abort_blocked", 2, 2, "bytes", [2, 2, 2], [1], abort=True)
    return g


def fmt_conc(a):
    if a["op"] == "init":
        c = a["arg"]
        return "init %s %d %d %s %d %s %s" % (c["name"], c["B"], c["C"], c["mode"], 1 if c["abort"] else 0,
                                              ",".join(map(str, c["writes"])) or "-", ",".join(map(str, c["reads"])) or "-")
    return "%s %s" % (a["op"], a["arg"])


def conc_part(rep, tier):
    from checks import sessions as S
    from checks import sesscheck as SC
    grid = conc_grid(tier)
    mc = vlib.write_mc("MC_StreamConc_" + tier, "StreamConc", "MCConfigs == {%s}" % ",\n".join(S.tla(c) for c in grid))
    res = vlib.run_tlc(mc, SC._cfg("StreamConc_" + tier, "Spec", ["DeadlockFree", "BytesExact", "PendingBounded"], [], True),
                       "c15_conc_" + tier, workers=16, timeout=900)
    rep.add_tlc(res)
    if not res["ok"]:
        if res["violated"] and "violated" in res["violated"]:
            rep.violation("conc:spec:%s" % res["violated"].split()[1], "TLC: %s on StreamConc" % res["violated"],
                          dict(tlc=S.tlc_violation_trace(res)[:4000]))
            return
        vlib.tlc_must_pass(res, "StreamConc")
    res2 = vlib.run_tlc(mc, SC._cfg("StreamConc_live_" + tier, "FairSpec", [], ["Termination"], False), "c15_conc_live_" + tier,
                        workers=16, timeout=900)
    rep.add_tlc(res2)
    if not res2["ok"]:
        if res2["violated"]:
            rep.violation("conc:spec:Termination", "TLC: %s on StreamConc (weak fairness)" % res2["violated"], dict(out=res2["out"]))
            return
        vlib.tlc_must_pass(res2, "StreamConc liveness")
    paths, stats = vlib.path_cover(res["lines"])
    res["lines"] = None
    exes = vlib.build("sched", ["drv_uf_conc"])
    agg = vlib.replay_paths(exes["drv_uf_conc"], paths, fmt_conc, "c15_conc", timeout=400)
    rep.cov["evaluations"] += agg["steps"]
    rep.cov["traces_validated_against_impl"] += agg["paths"]
    rep.cov.setdefault("m1", []).append(dict(spec="StreamConc", configs=len(grid), **stats, replayed_paths=agg["paths"],
                                            replayed_steps=agg["steps"]))
    if agg["crashed"]:
        rep.violation("conc:crash", "driver crashed: %s" % str(agg["crashed"][0])[:400], agg["crashed"][0])
    elif agg["mismatches"]:
        rep.violation("conc:mismatch", "real UncompressedFile under the scheduler leaves the StreamConc graph: %s"
                      % str(agg["first"])[:500], agg["first"])
    elif agg["paths"] != stats["paths"]:
        raise vlib.ToolError("replayed %d of %d paths" % (agg["paths"], stats["paths"]))


def run(rep, tier, seed):
    rep.cov["rule"] = ("every edge (state, operation) of the TLC state graph of UncompressedFileSeq is executed on the "
                       "real UncompressedFile and the full projected state incl. the bytes returned is compared; "
                       "distinct_nontrivial = distinct edges")
    seq_part(rep, tier)
    conc_part(rep, tier)
    rep.cov["distinct_nontrivial"] = sum(m["edges"] for m in rep.cov.get("m1", []))
    rep.assumptions += ["projection reads private members (-fno-access-control)"]
