"""C08 — a file cut off at any byte reads as an unmodified prefix of its objects."""
import json
import os
from concurrent.futures import ThreadPoolExecutor
import vlib
from checks import sesscheck as SC
from checks import sessions as S

LEVEL = "model_checking"


def items():
    it = []
    for i in range(1, 9):
        it.append(["apptext", i, 30 * i + 7] if i % 3 == 0 else SC.can(i))
    return it


def grid(tier):
    g = []
    levels = [0, 6] if tier == "quick" else [0, 1, 6, 9]
    chops = [64] if tier == "quick" else [17, 64, 100]
    for lv in levels:
        for ch in chops:
            for h0 in ([0] if (tier == "quick" and lv) else [0, 1]):
                g.append(dict(name="t_l%d_c%d_h%d" % (lv, ch, h0),
                              params=dict(NREADS=-1, CHOP=ch, METHOD=0 if lv == 0 else 2, LEVEL=lv, HDR0=h0, B=0x20000, Q=10),
                              items=items()))
    # objects whose tail is skipped with seekg by the decoder (single-byte serial events: 15 unused union bytes)
    g.append(dict(name="t_sb_l0", params=dict(NREADS=-1, CHOP=50, METHOD=0, LEVEL=0, HDR0=0, B=0x20000, Q=10),
                  items=[SC.can(1), ["serialsb", 2], ["serialsb", 3], SC.can(4), ["serialsb", 5]]))
    return g


def run(rep, tier, seed):
    rep.cov["rule"] = ("Truncation.tla gives, for the container/object extents of a concrete file, the objects a reader "
                       "must deliver for EVERY cut offset 0..size (TLC evaluates all offsets, checks Monotone and "
                       "Complete); every cut file is then opened/read/closed by the real File under a seeded schedule of "
                       "the controlled scheduler (exact hang verdicts) and outcome, ids, eof flags compared. A few cut "
                       "configurations are also model-checked for all interleavings in ReadSession and edge-replayed")
    scs = grid(tier)
    exe, scen, descs = SC.prepare("r", scs, "c08_" + tier)
    # 1. spec tables, one TLC run per file structure
    tables = {}

    def tlc_one(d):
        objs = [dict(pos=o["pos"], osz=o["osz"], known=o["known"], id=o["id"]) for o in d["objs"]]
        fconts = [dict(pend=p, usize=c["usize"]) for p, c in zip(d["pends"], d["conts"])]
        mc = vlib.write_mc("MC_Trunc_" + d["name"], "Truncation",
                           "MCFConts == %s\nMCObjs == %s" % (S.tla(fconts), S.tla(objs)))
        cfg = os.path.join(vlib.WORK, "cfg", "Trunc_%s.cfg" % d["name"])
        with open(cfg, "w") as f:
            f.write('SPECIFICATION Spec\nCONSTANTS\n FConts <- MCFConts\n Objs <- MCObjs\n FSize = %d\n Name = "%s"\n'
                    'INVARIANTS Monotone Complete Vector\nCHECK_DEADLOCK FALSE\n' % (d["fsize"], d["name"]))
        return d, vlib.run_tlc(mc, cfg, "c08_trunc_" + d["name"], workers=2, timeout=900, heap="4g")

    with ThreadPoolExecutor(max_workers=8) as ex:
        for d, res in ex.map(tlc_one, descs):
            if not res["ok"] and res["violated"]:
                rep.add_tlc(res)
                rep.violation("spec:%s" % d["name"], "TLC: %s on Truncation" % res["violated"], dict(out=res["out"]))
                continue
            vlib.tlc_must_pass(res, "Truncation " + d["name"])
            rep.add_tlc(res)
            for v in res["lines"]:
                tables[(v["name"], v["T"])] = v
    # 2. every offset on the real code
    jobs = []
    for d in descs:
        n = d["fsize"] + 1
        parts = 4
        for i in range(parts):
            jobs.append((d["name"], i * n // parts, (i + 1) * n // parts - 1))

    def real_one(j):
        name, a, b = j
        one = os.path.join(vlib.WORK, "sessions", "c08_%s_%s.scen" % (tier, name))
        if not os.path.exists(one):
            S.write_scenarios(one, [s for s in scs if s["name"] == name])
        return j, vlib.run_driver(exe, ["trunc", one, seed, a, b], timeout=1500)

    for s in scs:       # write the per-scenario files before the pool starts
        S.write_scenarios(os.path.join(vlib.WORK, "sessions", "c08_%s_%s.scen" % (tier, s["name"])), [s])
    seen = 0
    with ThreadPoolExecutor(max_workers=16) as ex:
        for j, (results, other, rc, err) in ex.map(real_one, jobs):
            if rc != 0 or not results:
                rep.violation("real:%s:crash" % j[0], "truncation driver failed on %s rc=%s %s"
                              % (j, rc, err[-500:].replace("\n", " | ")), dict(job=j, rc=rc, stderr=err))
                continue
            for ln in other:
                if not ln.startswith("TRUNC "):
                    continue
                r = json.loads(ln[6:])
                seen += 1
                exp = tables.get((r["name"], r["T"]))
                if exp is None:
                    raise vlib.ToolError("no spec vector for %s T=%s" % (r["name"], r["T"]))
                key = "real:%s" % r["name"]
                if r["verdict"] != "ok" or not r["closed"]:
                    rep.violation(key + ":hang", "cut at %d: session does not end (%s)" % (r["T"], r["verdict"]), r)
                elif r["throws"] and not exp["mayThrow"]:
                    rep.violation(key + ":open", "cut at %d: open() threw although the statistics header is complete" % r["T"], r)
                elif r["ids"] != exp["ids"]:
                    rep.violation(key + ":objects", "cut at %d: delivered %s, expected %s" % (r["T"], r["ids"], exp["ids"]), r)
                elif not r["throws"] and not r["eofOk"]:
                    rep.violation(key + ":flags", "cut at %d: eof()/good() wrong after the null result" % r["T"], r)
    rep.cov["evaluations"] += seen
    rep.cov["traces_validated_against_impl"] += seen
    rep.cov["offsets_checked"] = seen
    if seen != sum(d["fsize"] + 1 for d in descs) and not rep.violations:
        raise vlib.ToolError("checked %d offsets of %d" % (seen, sum(d["fsize"] + 1 for d in descs)))
    rep.cov["samples"].append(dict(kind="truncation vector", example=tables.get((descs[0]["name"], descs[0]["fsize"] // 2))))
    # 3. a few cut configurations for all interleavings
    d0 = descs[0]
    cuts = [d0["pends"][0] - 1, d0["pends"][1], (d0["pends"][1] + d0["pends"][2]) // 2, 100, 3]
    small = [dict(name="cut_%d" % c, params=dict(B=64, Q=2, NREADS=-1, CHOP=60, CUT=c),
                  items=[SC.can(1), SC.can(2), SC.can(3)]) for c in (170, 236, 300, 328, 380)]
    SC.model_and_replay(rep, "r", small, "c08_m1_" + tier, ["DeadlockFree", "DeliveredIsPrefix", "DoneDeliveredAll", "NullIsLast"],
                        liveness=(tier == "thorough"), key="m1")
    rep.cov["distinct_nontrivial"] = seen + sum(m["edges"] for m in rep.cov.get("m1", []))
    rep.assumptions += ["a container is complete when header and stored payload are in the file (its padding is not "
                        "required)", "initial header = bytes 16..143 of the statistics header zero"]
