"""C11 — no data races; an object handed over is never touched by the other side again."""
import os
import vlib
from checks import sesscheck as SC

LEVEL = "model_checking"


def run(rep, tier, seed):
    rep.cov["rule"] = ("ownership ghost in ReadSession/WriteSession (NoStaleAccess, AllDeleted) for all interleavings "
                       "incl. the extra scheduling point after every notifying queue section (cfg.post); every edge "
                       "replayed on the real File in an AddressSanitizer+UBSan build with an application that deletes "
                       "each object as soon as read() returns (a stale access is a deterministic heap-use-after-free); "
                       "ThreadSanitizer sensor on native write+read sessions with seeded pacing")
    # 1. spec + ASan edge replay with post-unlock scheduling points
    SC.model_and_replay(rep, "r", SC.read_grid(tier, post=1), "c11_r_" + tier,
                        ["NoStaleAccess", "Accounted", "PipelineOrder"], liveness=False, variant="asan", key="read")
    SC.model_and_replay(rep, "w", SC.write_grid(tier, post=1), "c11_w_" + tier,
                        ["AllDeleted", "FileOutUnique"], liveness=False, variant="asan", key="write")
    # 2. anti-vacuity: the spec with the defective order (touch after hand-over) must violate NoStaleAccess
    exe, scen, descs = SC.prepare("r", SC.read_grid("quick", post=1)[:1], "c11_vac", "asan")
    for d in descs:
        d["touch"] = "after"
    mc = vlib.write_mc("MC_c11_vac", "ReadSession", "MCConfigs == {%s}" % ",\n".join(SC.S.tla(d) for d in descs))
    res = vlib.run_tlc(mc, SC._cfg("c11_vac", "Spec", ["NoStaleAccess"], [], False), "c11_vac", timeout=600)
    rep.add_tlc(res)
    rep.cov["vacuity_probe"] = "touch=after violates NoStaleAccess: %s" % bool(res["violated"])
    if not res["violated"]:
        raise vlib.ToolError("vacuity probe: TLC did not find the stale access in the defective model")
    # 3. ThreadSanitizer sensor (native threads)
    exes = vlib.build("tsan", ["drv_native"])
    d = os.path.join(vlib.WORK, "native")
    os.makedirs(d, exist_ok=True)
    sessions = 6 if tier == "quick" else 40
    from concurrent.futures import ThreadPoolExecutor
    nproc = 4 if tier == "quick" else 12

    def one(i):
        return vlib.run_driver(exes["drv_native"], ["stress", d, seed * 1000 + i, sessions], timeout=1500)
    tot = 0
    with ThreadPoolExecutor(max_workers=nproc) as ex:
        for results, other, rc, err in ex.map(one, range(nproc)):
            if rc != 0 or not results:
                rep.violation("tsan:report", "ThreadSanitizer/driver failure rc=%s: %s"
                              % (rc, err[-1200:].replace("\n", " | ")), dict(rc=rc, stderr=err))
                continue
            r = results[0]
            tot += r["sessions"]
            rep.cov["evaluations"] += r["objects"]
            if r["bad"]:
                rep.violation("native:wrong-objects", "native sessions delivered wrong objects: %s" % r, r)
    # several File objects used at the same time (each session from its own application thread): process-wide
    # state shared between sessions (static buffers) is a race between the worker threads of different sessions
    results, other, rc, err = vlib.run_driver(exes["drv_native"], ["pair", d, seed + 77, 1 if tier == "quick" else 4], timeout=1500)
    if rc != 0 or not results:
        rep.violation("tsan:pair", "ThreadSanitizer/driver failure with three sessions at the same time rc=%s: %s"
                      % (rc, err[-1200:].replace("\n", " | ")), dict(rc=rc, stderr=err))
    else:
        r = results[0]
        tot += r["sessions"]
        rep.cov["evaluations"] += r["objects"]
        if r["bad"] or r["differ"]:
            rep.violation("native:pair", "sessions running at the same time disturb each other: %s" % r, r)
    rep.cov["tsan_sessions"] = tot
    rep.cov["traces_validated_against_impl"] += tot
    rep.cov["distinct_nontrivial"] = sum(m["edges"] for m in rep.cov.get("m1", []))
    rep.assumptions += ["memory-location-level races are observed by TSan on sampled native schedules, not deduced",
                        "ASan detects a stale access only on replayed schedules; the schedule set is edge-complete "
                        "for the bounded configurations"]
