"""C10 — corrupt or hostile input never causes a crash, undefined behaviour or a hang."""
import json
import os
import random
from concurrent.futures import ThreadPoolExecutor
import vlib
from checks import sesscheck as SC
from checks import sessions as S

LEVEL = "model_checking"


def hexs(b):
    return "".join("%02x" % x for x in b)


lobj = SC.lobj


def spec_grid(tier):
    """hostile structures for all interleavings (ReadSession) + edge replay"""
    can = SC.can
    g = [
        # known type whose declared size is below its own layout: read 48, seek back
        dict(name="h_short", params=dict(B=64, Q=2, NREADS=-1), items=[lobj(1, 20, 48), can(2)], conts=[96]),
        # a version-dependent type (LIN_MESSAGE2) declared much shorter than this library's layout of it
        dict(name="h_lin2short", params=dict(B=256, Q=2, NREADS=-1), items=[can(1), lobj(57, 20, 48), can(2), can(3), can(4), can(5)], conts=[288]),
        # known type declared larger than what follows: runs into the end of the stream
        dict(name="h_long", params=dict(B=64, Q=2, NREADS=-1), items=[can(1), lobj(1, 1000, 48)], conts=[48, 48]),
        # unknown type declared far beyond the file
        dict(name="h_unkbig", params=dict(B=64, Q=2, NREADS=-1), items=[can(1), lobj(200, 100000, 32), can(2)], conts=[128]),
        # object size below the base header
        dict(name="h_tiny", params=dict(B=64, Q=2, NREADS=-1), items=[can(1), lobj(1, 3, 48), can(2)], conts=[144]),
        # zeroed header: object size AND declared header size 0, unknown type (no progress unless the session ends)
        dict(name="h_zero", params=dict(B=64, Q=2, NREADS=-1), items=[can(1), lobj(200, 0, 48, 0x00, hsz=0), can(2)], conts=[144]),
        # declared header size larger than the declared object size, known type
        dict(name="h_hsz", params=dict(B=64, Q=2, NREADS=-1), items=[can(1), lobj(1, 12, 48, hsz=8), can(2)], conts=[144]),
        # a container whose deflate stream is damaged, a non-container object at container level
        dict(name="h_badz", params=dict(B=64, Q=2, NREADS=-1, METHOD=2, LEVEL=6, BADCONT=1), items=[can(1), can(2), can(3)], conts=[48, 48, 48]),
        # a stored container with more bytes than it declares
        dict(name="h_surplus", params=dict(B=64, Q=2, NREADS=-1, METHOD=0, BADCONT=1, SURPLUS=7), items=[can(1), can(2), can(3)], conts=[48, 48, 48]),
        dict(name="h_junk", params=dict(B=64, Q=2, NREADS=-1, TAIL="junk"), items=[can(1)], conts=[48]),
        # allocation failure (std::bad_alloc) inside the decompressing worker
        dict(name="h_foreign", params=dict(B=64, Q=2, NREADS=-1, TAIL="foreign"), items=[can(1)], conts=[48]),
    ]
    return g


def base_scenarios(tier):
    items = [SC.can(1), ["apptext", 2, 37], ["serial", 3, 5], ["marker", 4, 9], ["canfd", 5, 12], ["env", 6, 10],
             ["eth", 7, 33], ["unk", 200, 24], SC.can(8)]
    ref = os.path.join(vlib.BLF, "tests", "unittests", "events_from_binlog")
    g = [
        dict(name="H_l0", params=dict(NREADS=-1, CHOP=150, METHOD=0), items=items),
        dict(name="H_z6", params=dict(NREADS=-1, CHOP=300, METHOD=2, LEVEL=6), items=items),
        dict(name="H_refSerial", params=dict(NREADS=-1, REF=os.path.join(ref, "test_SerialEvent.blf")), items=[]),
    ]
    if tier == "thorough":
        for f in ("test_AppText.blf", "test_CanFdMessage64.blf", "test_GlobalMarker.blf", "test_EthernetFrame.blf",
                  "test_EnvironmentVariable.blf", "test_Most150Pkt.blf", "test_FunctionBus.blf", "test_TestStructure.blf"):
            g.append(dict(name="H_" + f[5:-4], params=dict(NREADS=-1, REF=os.path.join(ref, f)), items=[]))
    return g


def cases_for(name, fsize, tier, rng):
    out = []
    vals8 = [0x00, 0x01, 0x7f, 0x80, 0xff]
    for off in range(fsize):
        for v in (vals8 if tier == "thorough" or off % 3 == 0 else [0xff, 0x00]):
            out.append((name, "sub", off, v))
    for off in range(0, fsize - 1, 2):
        for v in [0, 1, 0x7fff, 0x8000, 0xffff]:
            if tier == "thorough" or (off // 2 + v) % 2 == 0:
                out.append((name, "w16", off, v))
    for off in range(0, fsize - 3, 4):
        for v in [0, 1, 0x7fffffff, 0x80000000, 0xffffffff]:
            out.append((name, "w32", off, v))
    # several adjacent fields wrong at once (header size + object size, object size + type, ...): zeroed windows
    for off in range(0, fsize - 8, 4):
        for ln in ((8, 12) if tier == "thorough" or (off // 4) % 2 == 0 else (8,)):
            out.append((name, "zfill", off, ln))
    for n in range(0, fsize + 1, 1 if tier == "thorough" else 3):
        out.append((name, "cut", n, 0))
    for off in range(144, fsize - 64, 16 if tier == "thorough" else 48):
        for ln in (16, 64):
            out.append((name, "dup", off, ln))
            out.append((name, "del", off, ln))
    # structure-aware random: two 32-bit overwrites would need a compound case; single random 32-bit values instead
    for _ in range(400 if tier == "quick" else 4000):
        out.append((name, "w32", rng.randrange(0, max(1, fsize - 4)), rng.getrandbits(32)))
        out.append((name, "w16", rng.randrange(0, max(1, fsize - 2)), rng.getrandbits(16)))
    return out


def run(rep, tier, seed):
    rep.cov["rule"] = ("ReadSession with hostile structures (object sizes below/above their layout, beyond the file, below "
                       "the base header; damaged deflate stream; non-container object; allocation failure in a worker): "
                       "DeadlockFree, Termination and delivery invariants for all interleavings, edge-replayed. "
                       "Enumerated mutants of valid files (library-built with 9 object kinds, level 0 and 6, and reference "
                       "logs): every single-byte substitution with boundary values, aligned 16/32-bit overwrites, every "
                       "truncation, zeroed 8/12-byte windows (adjacent fields wrong together), block duplication/deletion, seeded random "
                       "16/32-bit values - each opened/read/closed by "
                       "the real File in an ASan+UBSan build under the controlled scheduler with a 256 MiB allocation cap; "
                       "a sanitizer report, an escaping exception, a dead-/live-lock or an endless object stream is a "
                       "violation")
    SC.model_and_replay(rep, "r", spec_grid(tier), "c10_spec_" + tier,
                        ["DeadlockFree", "FiniteDelivery", "NullIsLast", "QueueBounded", "Accounted"], liveness=True, key="spec")
    # the resynchronisation scan at the end of a stream must end (exception / failed stream), never spin
    from checks import c09
    c09.resync_part(rep, tier)
    # enumeration on the real code
    scs = base_scenarios(tier)
    exe, scen, descs = SC.prepare("r", scs, "c10_H_" + tier, variant="asan")
    rng = random.Random(seed)
    cases = []
    for d in descs:
        cases += cases_for(d["name"], d["fsize"], tier, rng)
    rng.shuffle(cases)
    nproc = 16
    d = os.path.join(vlib.WORK, "hostile")
    os.makedirs(d, exist_ok=True)
    files = []
    for i in range(nproc):
        fn = os.path.join(d, "cases_%s_%d.txt" % (tier, i))
        with open(fn, "w") as f:
            for c in cases[i::nproc]:
                f.write("%s %s %d %d\n" % c)
        files.append(fn)

    def one(fn):
        return fn, vlib.run_driver(exe, ["hostile", scen, seed, fn], timeout=3000,
                                   env={"ASAN_OPTIONS": "detect_leaks=0:abort_on_error=0:exitcode=66:allocator_may_return_null=1",
                                        "UBSAN_OPTIONS": "print_stacktrace=0:halt_on_error=1:exitcode=67"})
    done = 0
    with ThreadPoolExecutor(max_workers=nproc) as ex:
        for fn, (results, other, rc, err) in ex.map(one, files):
            if rc != 0 or not results:
                rep.violation("enum:driver", "hostile driver failed on %s rc=%s %s" % (fn, rc, err[-400:].replace("\n", " | ")), dict(rc=rc))
                continue
            done += results[0]["paths"]
            for ln in other:
                if ln.startswith("HOST "):
                    r = json.loads(ln[5:])
                    what = "crash" if r["verdict"] == "crash" else "hang" if r["verdict"] in ("deadlock", "livelock") else \
                        "foreign" if r.get("foreign") else "endless" if r.get("objects", 0) >= 100000 else "noclose"
                    rep.violation("enum:%s:%s:%s" % (r["scen"], r["kind"], what),
                                  "hostile file (%s %s %s %s): %s" % (r["scen"], r["kind"], r["a"], r["b"], json.dumps(r)), r)
    rep.cov["evaluations"] += done
    rep.cov["traces_validated_against_impl"] += done
    rep.cov["hostile_files"] = done
    rep.cov["samples"].append(dict(kind="hostile case", case=list(cases[0])))
    if done != len(cases) and not rep.violations:
        raise vlib.ToolError("ran %d of %d hostile cases" % (done, len(cases)))
    rep.cov["distinct_nontrivial"] = done + sum(m["edges"] for m in rep.cov.get("m1", []))
    rep.assumptions += ["absence of undefined behaviour is observed by ASan/UBSan on the enumerated executions, not deduced",
                        "one seeded schedule per hostile file (all interleavings for the spec grid only)",
                        "256 MiB cap through a replaced operator new"]
