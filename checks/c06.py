"""C06 — no API call blocks forever: the three-stage pipeline cannot deadlock."""
import vlib
from checks import sesscheck as SC

LEVEL = "model_checking"


def scale_read(tier):
    can = SC.can
    g = [
        dict(name="R_many4k", params=dict(NREADS=-1, CHOP=4096), items=[can(i) for i in range(1, 301)]),
        dict(name="R_bigtext", params=dict(NREADS=-1, CHOP=0x20000), items=[can(1), ["apptext", 2, 0x50000], can(3)]),
        dict(name="R_bigtext4k", params=dict(NREADS=-1, CHOP=4096), items=[["apptext", 1, 0x21000], can(2)]),
        dict(name="R_unk64", params=dict(NREADS=-1, CHOP=64), items=[can(1), ["unk", 200, 3000], can(2)]),
        dict(name="R_close5", params=dict(NREADS=5, CHOP=0x20000), items=[can(i) for i in range(1, 6001)]),
        dict(name="R_close0", params=dict(NREADS=0, CHOP=4096), items=[can(i) for i in range(1, 2001)]),
    ]
    if tier == "thorough":
        g += [
            dict(name="R_mixed1M", params=dict(NREADS=-1, CHOP=0x100000),
                 items=[["apptext", i, 1000 * (i % 7) + 3] if i % 3 else can(i) for i in range(1, 1500)]),
            dict(name="R_close11", params=dict(NREADS=11, CHOP=0x20000), items=[["apptext", i, 12000] for i in range(1, 60)]),
            dict(name="R_4xBC", params=dict(NREADS=-1, CHOP=0x20000), items=[["apptext", 1, 4 * 0x40000 + 5], can(2)]),
        ]
    return g


def scale_write(tier):
    can = SC.can
    g = [
        dict(name="W_c256k", params=dict(C=0x40000, RP=1, LEVEL=0), items=[["apptext", i, 1000] for i in range(1, 401)]),
        dict(name="W_c4k", params=dict(C=4096, RP=1, LEVEL=1), items=[can(i) for i in range(1, 501)]),
        dict(name="W_bigobj", params=dict(C=0x20000, RP=0, LEVEL=0), items=[can(1), ["apptext", 2, 0x50000], can(3)]),
        # incompressible payload, several full containers, zlib: the compressor must not die on its output bound
        dict(name="W_random", params=dict(C=0x20000, RP=1, LEVEL=1), items=[["apptextr", i, 100000] for i in range(1, 7)]),
        # level and restore points configured between open() and the first write(): same file for every schedule
        dict(name="W_late", params=dict(C=4096, RP=1, LEVEL=6, LATE=1), items=[can(i) for i in range(1, 301)]),
        # the output file fails at a seeded step; afterwards more than one buffer plus one queue of data follows
        dict(name="W_fault", params=dict(C=0x8000, RP=1, LEVEL=0, FAULT=1), items=[["apptext", i, 3000] for i in range(1, 201)]),
        dict(name="W_faultz", params=dict(C=4096, RP=0, LEVEL=1, FAULT=1), items=[can(i) for i in range(1, 401)]),
    ]
    if tier == "thorough":
        g += [
            dict(name="W_c1M", params=dict(C=0x100000, RP=1, LEVEL=6), items=[["apptext", i, 5000] for i in range(1, 401)]),
            dict(name="W_c17", params=dict(C=17, RP=1, LEVEL=0), items=[can(i) for i in range(1, 40)]),
            dict(name="W_4xBC", params=dict(C=0x20000, RP=1, LEVEL=1), items=[["apptext", 1, 4 * 0x40000 + 5]]),
        ]
    return g


def m2_read(tier):
    can = SC.can
    g = [dict(name="T_mixed", params=dict(B=256, Q=3, NREADS=-1, CHOP=100),
              items=[can(i) if i % 4 else ["apptext", i, 150] for i in range(1, 25)]),
         dict(name="T_close7", params=dict(B=128, Q=2, NREADS=7, CHOP=96), items=[can(i) for i in range(1, 21)]),
         dict(name="T_unk", params=dict(B=64, Q=2, NREADS=-1, CHOP=40),
              items=[can(1), ["unk", 200, 130], can(2), ["unk", 27, 17], can(3), ["t115", 4]])]
    if tier == "thorough":
        g.append(dict(name="T_long", params=dict(B=512, Q=10, NREADS=-1, CHOP=300),
                      items=[can(i) if i % 5 else ["apptext", i, 700] for i in range(1, 120)]))
    return g


def m2_write(tier):
    can = SC.can
    g = [dict(name="T_wmixed", params=dict(B=256, Q=3, C=100, RP=1, LEVEL=0),
              items=[can(i) if i % 4 else ["apptext", i, 150] for i in range(1, 25)]),
         dict(name="T_wbigC", params=dict(B=64, Q=2, C=500, RP=0, LEVEL=0), items=[can(i) for i in range(1, 30)]),
         dict(name="T_wfault", params=dict(B=128, Q=2, C=100, RP=1, LEVEL=0, FAULT=1), fault=1,
              items=[can(i) if i % 3 else ["apptext", i, 90] for i in range(1, 22)])]
    if tier == "thorough":
        g.append(dict(name="T_wlong", params=dict(B=512, Q=10, C=300, RP=1, LEVEL=0),
                      items=[can(i) if i % 5 else ["apptext", i, 700] for i in range(1, 120)]))
    return g


def run(rep, tier, seed):
    rep.cov["rule"] = ("TLC explores every interleaving of App/U/C at lock grain for each small configuration "
                       "(DeadlockFree as invariant, Termination under weak fairness); every edge of those graphs is "
                       "executed on the real File under the controlled scheduler (thread status sets compared after "
                       "each step); real-scale sessions run under seeded random schedules with exact deadlock/livelock "
                       "verdicts. distinct_nontrivial = distinct (state, thread) edges replayed")
    # the stream stage alone: every order relation of read size / chunk / container / buffer (StreamConc)
    from checks.c15 import conc_part
    conc_part(rep, tier)
    SC.model_and_replay(rep, "r", SC.read_grid(tier), "c06_r_" + tier, ["DeadlockFree"], key="read", refine=True)
    SC.model_and_replay(rep, "w", SC.write_grid(tier), "c06_w_" + tier, ["DeadlockFree"], key="write", refine=True)
    # I/O fault of the output file at any moment of any interleaving: every call still returns (DeadlockFree as
    # invariant, Termination under weak fairness), every object is still released, the file holds a prefix
    SC.model_and_replay(rep, "w", SC.write_fault_grid(tier), "c06_wf_" + tier, SC.FAULT_INV, key="write-fault")
    # M2: medium-size sessions under seeded schedules, every recorded step validated by TLC against the spec
    nt = 3 if tier == "quick" else 12
    SC.trace_validate(rep, "r", m2_read(tier), "c06_Tr_" + tier, seed, nt, ["QueueBounded", "NullIsLast"], key="read")
    SC.trace_validate(rep, "w", m2_write(tier), "c06_Tw_" + tier, seed, nt, ["QueueBounded", "NoOversize", "FaultPrefix"], key="write")
    runs = 8 if tier == "quick" else 60
    rr, _ = SC.random_runs(rep, "r", scale_read(tier), "c06_R_" + tier, seed, runs, key="read")
    wr, _ = SC.random_runs(rep, "w", scale_write(tier), "c06_W_" + tier, seed, runs, key="write")
    rep.cov["random_sessions"] = [dict(scen=r["scen"], runs=r["runs"], ok=r["ok"], steps=r["steps"]) for r in rr + wr]
    rep.cov["distinct_nontrivial"] = sum(m["edges"] for m in rep.cov.get("m1", []))
    rep.assumptions += ["weak fairness of each thread (the reader spins on an aborted stream until the decompressor "
                        "declares the end)", "scheduling points = tracked mutex acquisitions, atomics, start, join; "
                        "fstream operations are atomic with the step containing them",
                        "small configurations scale B, Q, C down through the private setters"]
