------------------------------- MODULE OQAbs -------------------------------
(***************************************************************************)
(* ObjectQueue with the queue abstracted to its length: the counters and   *)
(* wait predicates of OQOps over unbounded integers.  ObjectQueueSeq       *)
(* refines this module (len = Len(oq.q), checked by TLC on the bounded     *)
(* graph); the invariants below are proved for ALL capacities, lengths and *)
(* counter values by Apalache from an inductive invariant                  *)
(*   Init => IndInv        IndInv /\ Next => IndInv'                       *)
(***************************************************************************)
EXTENDS Integers

CONSTANT
  \* @type: Int;
  Inf
VARIABLES
  \* @type: Int;
  len,
  \* @type: Int;
  g,
  \* @type: Int;
  p,
  \* @type: Int;
  end,
  \* @type: Int;
  cap,
  \* @type: Bool;
  abort,
  \* @type: Bool;
  eof

CInit == Inf = 1000000000

Init == /\ len = 0 /\ g = 0 /\ p = 0 /\ end = Inf
        /\ cap \in 1..Inf
        /\ abort = FALSE /\ eof = FALSE

ReadPred == abort \/ len > 0 \/ g >= end
WritePred == abort \/ len < cap

Read == /\ ReadPred
        /\ IF len = 0
             THEN eof' = TRUE /\ UNCHANGED <<len, g>>
             ELSE eof' = FALSE /\ len' = len - 1 /\ g' = g + 1
        /\ UNCHANGED <<p, end, cap, abort>>
Write == /\ WritePred
         /\ len' = len + 1 /\ p' = p + 1
         /\ end' = IF p + 1 > end THEN p + 1 ELSE end
         /\ UNCHANGED <<g, cap, abort, eof>>
SetEnd == /\ end' \in 0..Inf
          /\ UNCHANGED <<len, g, p, cap, abort, eof>>
Abort == abort' = TRUE /\ UNCHANGED <<len, g, p, end, cap, eof>>
Next == Read \/ Write \/ SetEnd \/ Abort
vars == <<len, g, p, end, cap, abort, eof>>
Spec == Init /\ [][Next]_vars

(* C16: counters are exact, a producer is held back at the capacity (only abort lets writes through) *)
Counters == len = p - g /\ g >= 0 /\ len >= 0
CapacityRespected == ~abort => len <= cap
TypeOK == /\ len \in Int /\ g \in Int /\ p \in Int /\ end \in Int /\ cap \in Int
          /\ abort \in BOOLEAN /\ eof \in BOOLEAN
IndInv == /\ Counters /\ CapacityRespected
          /\ cap >= 1 /\ end >= 0
IndInit == TypeOK /\ IndInv
=============================================================================
