----------------------------- MODULE Truncation -----------------------------
(***************************************************************************)
(* What a reader must deliver from a valid file cut off at byte offset T   *)
(* (C08).  The file is described by the extents of its log containers in   *)
(* the file and of its objects in the uncompressed stream:                 *)
(*   FConts[i] = [pend, usize]  pend: file offset just behind the stored   *)
(*               payload of container i (its padding is not needed)        *)
(*   Objs[j]   = [pos, osz, known, id]                                     *)
(* compressedFile2UncompressedFile accepts a container only if header and  *)
(* payload were read completely, and stops at the first one that was not;  *)
(* uncompressedFile2ReadWriteQueue delivers an object only if all of its   *)
(* objectSize bytes are in the stream.  open() may raise the library's     *)
(* exception only while the 144-byte statistics header is incomplete (the  *)
(* property allows either outcome there); nothing is delivered then.       *)
(***************************************************************************)
EXTENDS Integers, Sequences, TLC, Json

CONSTANTS FConts, Objs, FSize, Name

VARIABLE T
vars == <<T>>

RECURSIVE NComplete(_, _)
NComplete(t, i) == IF i > Len(FConts) \/ FConts[i].pend > t THEN i - 1 ELSE NComplete(t, i + 1)
RECURSIVE SumU(_)
SumU(k) == IF k = 0 THEN 0 ELSE FConts[k].usize + SumU(k - 1)
StreamLen(t) == SumU(NComplete(t, 1))
OpenMayThrow(t) == t < 144
Delivered(t) == IF OpenMayThrow(t) THEN <<>>
                ELSE LET n == StreamLen(t)
                         S == SelectSeq(Objs, LAMBDA o : o.known /\ o.pos + o.osz <= n)
                     IN [i \in 1..Len(S) |-> S[i].id]

Init == T = 0
Next == T < FSize /\ T' = T + 1
Spec == Init /\ [][Next]_vars

IsPrefixOf(a, b) == Len(a) <= Len(b) /\ \A i \in 1..Len(a) : a[i] = b[i]
(* a longer prefix of the file never yields fewer objects, and always the same ones first *)
Monotone == T < FSize => IsPrefixOf(Delivered(T), Delivered(T + 1))
(* the complete file delivers everything *)
Complete == T = FSize => Len(Delivered(T)) = Len(SelectSeq(Objs, LAMBDA o : o.known))
Vector == PrintT(ToJson([name |-> Name, T |-> T, mayThrow |-> OpenMayThrow(T), ids |-> Delivered(T)]))
=============================================================================
