SPECIFICATION Spec
CONSTANTS
  MaxObj = 4
  Caps = {1, 2, 3}
INVARIANTS FifoExactlyOnce Counters CapacityRespected EofFlag
PROPERTIES EofExact NeverNullWhileQueued
VIEW View
ACTION_CONSTRAINT EdgeLog
CONSTRAINT InitLog
CHECK_DEADLOCK FALSE
