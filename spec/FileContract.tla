----------------------------- MODULE FileContract -----------------------------
(***************************************************************************)
(* What an application may assume about Vector::BLF::File, with no         *)
(* threads, buffers or containers in sight: the sequential contract that   *)
(* the three-thread pipelines of ReadSession.tla and WriteSession.tla must *)
(* refine (C07: "results are independent of thread interleaving" is        *)
(* exactly: every behaviour of the concurrent specification, projected     *)
(* to what the application sees, is a behaviour of this one).              *)
(*                                                                         *)
(* Reading:  file     the objects a complete read of the file delivers     *)
(*           out      results of read() so far, 0 = nullptr                *)
(*           closing  close() has begun                                    *)
(*   read() returns the next object of the file, or - once all of them have*)
(*   been returned, or after close() has begun - nullptr; nothing is       *)
(*   skipped, repeated or reordered; nullptr is final.                     *)
(*                                                                         *)
(* Writing:  sizes    encoded size of every object passed to write()       *)
(*           acc      number of objects accepted by write() so far         *)
(*           flushed  uncompressed bytes that have reached the file        *)
(*           closed   close() has returned                                 *)
(*   the file never holds bytes of an object that was not written yet, the *)
(*   bytes reach it in order (flushed only grows), and when close() has    *)
(*   returned the file holds every byte of every object written.           *)
(***************************************************************************)
EXTENDS Naturals, Sequences

VARIABLES file, out, closing,            \* reading
          sizes, acc, flushed, closed    \* writing

NonNull(s) == SelectSeq(s, LAMBDA x : x # 0)
RECURSIVE Sum(_, _)
Sum(s, n) == IF n = 0 THEN 0 ELSE s[n] + Sum(s, n - 1)

(* ---------------------------- reading ---------------------------------- *)
rvars == <<file, out, closing>>
ReadInit == out = <<>> /\ closing = FALSE
NoNullYet == \A i \in 1..Len(out) : out[i] # 0
ReadObject == /\ NoNullYet /\ Len(out) < Len(file)
              /\ out' = Append(out, file[Len(out) + 1])
              /\ UNCHANGED <<file, closing>>
ReadEnd == /\ NoNullYet /\ (Len(out) = Len(file) \/ closing)
           /\ out' = Append(out, 0)
           /\ UNCHANGED <<file, closing>>
BeginClose == ~closing /\ closing' = TRUE /\ UNCHANGED <<file, out>>
ReadNext == ReadObject \/ ReadEnd \/ BeginClose
ReadSpec == ReadInit /\ [][ReadNext]_rvars

(* ---------------------------- writing ---------------------------------- *)
wvars == <<sizes, acc, flushed, closed>>
WriteInit == acc = 0 /\ flushed = 0 /\ closed = FALSE
Accept == /\ ~closed /\ acc < Len(sizes) /\ acc' = acc + 1
          /\ UNCHANGED <<sizes, flushed, closed>>
Flush == /\ ~closed
         /\ \E n \in (flushed + 1)..Sum(sizes, acc) : flushed' = n
         /\ UNCHANGED <<sizes, acc, closed>>
EndClose == /\ ~closed /\ flushed = Sum(sizes, acc)
            /\ closed' = TRUE /\ UNCHANGED <<sizes, acc, flushed>>
WriteNext == Accept \/ Flush \/ EndClose
WriteSpec == WriteInit /\ [][WriteNext]_wvars
=============================================================================
