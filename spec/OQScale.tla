------------------------------- MODULE OQScale -------------------------------
(***************************************************************************)
(* The operators of OQOps evaluated on single large states (capacities and *)
(* fill levels around 2^8 and 2^16, which the exhaustive graphs of         *)
(* ObjectQueueSeq / QueueConc with capacities 1..4 cannot reach): for a    *)
(* queue of capacity cap holding fill objects, is a producer held back,    *)
(* what does read() return, what is the state afterwards.  TLC prints one  *)
(* record per vector; harness/drv_oq_conc (mode scale) puts the real queue *)
(* into the same state and compares (M3 vector replay).                    *)
(***************************************************************************)
EXTENDS OQOps, TLC, Json

CONSTANT Vectors        \* set of <<cap, fill>>
VARIABLE x

St(cap, fill) == [OQInit EXCEPT !.cap = cap, !.q = [i \in 1..fill |-> i], !.p = fill]
Rec(v) == LET s == St(v[1], v[2])
              r == OQRead(s)
          IN [cap |-> v[1], fill |-> v[2],
              held |-> ~OQWritePred(s),                      \* a further write() waits
              ret |-> OQReadRet(s),                          \* read() returns the oldest object (0 = would wait)
              lenAfterRead |-> Len(r.q), gAfterRead |-> r.g,
              heldAfterRead |-> ~OQWritePred(r),
              lenAfterWrite |-> IF OQWritePred(s) THEN Len(OQWrite(s, v[2] + 1).q) ELSE Len(s.q)]
(* the bounded-FIFO property itself, on these states *)
(* a write never takes the queue above its capacity, nor - when the capacity was lowered below the fill level -
   above what it already holds *)
CapacityRespected == \A v \in Vectors : Rec(v).lenAfterWrite <= (IF v[2] > v[1] THEN v[2] ELSE v[1])
ASSUME CapacityRespected
ASSUME \A v \in Vectors : PrintT(ToJson(Rec(v)))

Init == x = 0
Next == x' = x
Spec == Init /\ [][Next]_x
=============================================================================
