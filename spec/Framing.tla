------------------------------- MODULE Framing -------------------------------
(***************************************************************************)
(* How every encoded object must be framed (C03), which class stands behind *)
(* each type code (C17), and what decoding the encoding must give back      *)
(* (C01, object level).  The records are produced by harness/drv_codec from *)
(* the real encoders/decoders, one per (class, payload shape, selector      *)
(* values, seed); TLC validates each record (trace validation).             *)
(*                                                                         *)
(*  FRAME record: code, cls, hdr (header kind of the class), emitted bytes, *)
(*    the fields read back from the emitted bytes (hsField, hvField,        *)
(*    osField, otField), padZero, shapeKept, and the decoder's behaviour on *)
(*    those bytes: decCls, consumed, decGood, sameFields, sameShape,        *)
(*    reencSame.                                                            *)
(*  REG record: code, cls (what the factory created), ctorCode, backCls.    *)
(***************************************************************************)
EXTENDS Registry, ImageScope, TLC, Json, IOUtils

CONSTANT Which     \* "C03" | "C01" | "C17" | "C02"

Records == ndJsonDeserialize(IOEnv.TRACE)

VARIABLE i
vars == <<i>>

(* C03 — framed exactly as its own header declares *)
FramedAsDeclared(r) ==
  /\ ~r.crashed /\ ~r.encThrew
  /\ r.sig
  /\ r.hsField = HeaderSize(r.hdr)                     \* header-size field = header bytes of the class
  /\ r.hvField = HeaderVersion(r.hdr)
  /\ ClassOf(r.otField) = r.cls                        \* written under a code of its own class
  /\ r.osField >= r.hsField
  /\ r.emitted = r.osField + Pad(r.otField, r.osField) \* object size = bytes emitted, not counting padding;
  /\ r.padZero                                         \*   padding exactly objectSize % 4 zero bytes for padding types
  /\ r.shapeKept                                       \* encoding does not alter the caller's containers
  /\ r.consumed = r.emitted /\ r.decGood /\ ~r.decThrew   \* decoding consumes exactly what was emitted
  /\ r.reencSame                                       \* every length/count field = payload actually emitted:
                                                       \*   encoding what was decoded reproduces the bytes
  /\ r.ufSame                                          \* the same bytes reach the uncompressed stream, wherever
                                                       \*   log container boundaries fall (payload, padding, end)

(* C01 at object level — decoding the encoding gives the same class and the same values *)
RoundTrip(r) ==
  /\ ~r.crashed /\ ~r.encThrew /\ ~r.decThrew
  /\ r.decCls = r.cls
  /\ r.sameFields /\ r.reencSame
  /\ (r.sameShape \/ r.widthTrunc)       \* payload lengths not representable in the length field are out of scope
  /\ r.consumed = r.emitted
  /\ OwnedOK(r.cls, r.ownedMembers)     \* the encoder overwrites nothing but the designated length fields

(* C17 — factory, constructors and files agree on type codes *)
FactoryConsistent(r) ==
  /\ r.cls = (IF r.high THEN "none" ELSE ClassOf(r.code))        \* nothing for unknown, reserved, > 255 codes
  /\ r.cls # "none" => /\ r.backCls = r.cls                         \* the class's own code maps back to the class
                       /\ ClassOf(r.ctorCode) = r.cls

(* C17 — a default-constructed object is written under a code of its own class and reading it back yields an
   object of the same class (the decoder consumes exactly what was written and does not fail) *)
DefaultRoundTrip(r) ==
  /\ ~r.crashed /\ ~r.encThrew
  /\ ClassOf(r.otField) = r.cls
  /\ r.decCls = r.cls
  /\ r.decGood /\ ~r.decThrew /\ r.consumed = r.emitted

(* C17, file level — the same through the File API (restore points on or off, stored or deflated): exactly this one
   object comes back, as the same class under the same code *)
DefaultThroughFile(r) ==
  /\ ClassOf(r.ctorCode) = r.cls
  /\ r.delivered = 1
  /\ r.backCls = r.cls /\ r.backCode = r.ctorCode

(* C02 — an image from a Vector-produced log: the registry knows its class, the padding rule explains its
   length, decoding is complete, and encoding the decoded object reproduces the image and every derived image
   that keeps its shape *)
ImageOK(r) ==
  /\ r.cls = ClassOf(r.code) /\ r.cls # "none"
  /\ r.len <= r.osField + 3
  /\ r.complete
  /\ r.identity
  /\ r.derivedBad = 0
  /\ OwnedOK(r.cls, r.ownedMembers)     \* decoded field values are carried over, only designated lengths are derived
  /\ r.inScope >= InScopeFloor(r.name, r.tier)   \* no value that is a plain field value in the format acts as a selector

(* C01 at file level — a sequence written through File and read back through File: every object comes back, in
   order, equal to what the object-level codec gives for it (RoundTrip above), followed by the end-of-file triple *)
FileRoundTrip(r) ==
  /\ r.delivered = r.n
  /\ r.mismatched = 0
  /\ r.eofOk

RecordOK(r) == CASE Which = "C03" -> FramedAsDeclared(r)
                 [] Which = "C01F" -> FileRoundTrip(r)
                 [] Which = "C02" -> ImageOK(r)
                 [] Which = "C01" -> RoundTrip(r)
                 [] Which = "C17" -> FactoryConsistent(r)
                 [] Which = "C17D" -> DefaultRoundTrip(r)
                 [] Which = "C17F" -> DefaultThroughFile(r)

Init == i = 1
Next == i < Len(Records) /\ i' = i + 1
Spec == Init /\ [][Next]_vars
Accepted == i <= Len(Records) => (RecordOK(Records[i]) \/ ~PrintT(<<"REJECTED", Records[i].name>>))
=============================================================================
