------------------------------ MODULE Lifecycle ------------------------------
(***************************************************************************)
(* The application's view of one Vector::BLF::File object: call histories  *)
(* over {open(missing), open(unwritable), open(valid,in), open(out),       *)
(* open again, read, write(obj), close, destroy} that respect the mode of  *)
(* the open session, with at most one successful open per object.          *)
(* The pipeline behind read()/write() is abstracted to its sequential      *)
(* meaning (ReadSession/WriteSession show that every interleaving has it). *)
(* Ghost state tracks who owns every object and how many worker threads    *)
(* exist, so that "released exactly once" and "no thread left" are         *)
(* invariants of the history graph, which mode M3 replays on the real File.*)
(***************************************************************************)
EXTENDS Integers, Sequences, FiniteSets, TLC, Json

CONSTANTS FileSizes,     \* numbers of objects in the valid input file
          MaxLen,        \* longest history
          MaxWrites

VARIABLES ph,            \* "fresh" | "in" | "out" | "half" | "closed" | "dead"
          isOpen, good, eof,
          n, k,          \* objects in the input file / delivered so far
          w,             \* objects written so far
          threads,       \* worker threads alive
          appOwned,      \* objects the application received and must delete
          libOwned,      \* objects passed to write() not yet released by the library
          len, act

vars == <<ph, isOpen, good, eof, n, k, w, threads, appOwned, libOwned, len, act>>
View == <<ph, isOpen, good, eof, n, k, w, threads, appOwned, libOwned, len>>

Init == /\ ph = "fresh" /\ isOpen = FALSE /\ good = TRUE /\ eof = FALSE
        /\ n \in FileSizes /\ k = 0 /\ w = 0 /\ threads = 0
        /\ appOwned = 0 /\ libOwned = 0 /\ len = 0
        /\ act = [op |-> "init", arg |-> n]

Do(o, a) == act' = [op |-> o, arg |-> a] /\ len' = len + 1 /\ len < MaxLen

(* a failed open leaves the object closed, creates no thread *)
OpenMissing == /\ ph = "fresh" /\ Do("openMissing", 0)
               /\ UNCHANGED <<ph, isOpen, good, eof, n, k, w, threads, appOwned, libOwned>>
OpenUnwritable == /\ ph = "fresh" /\ Do("openUnwritable", 0)
                  /\ UNCHANGED <<ph, isOpen, good, eof, n, k, w, threads, appOwned, libOwned>>
OpenIn == /\ ph = "fresh" /\ Do("openIn", n)
          /\ ph' = "in" /\ isOpen' = TRUE /\ threads' = 2
          /\ UNCHANGED <<good, eof, n, k, w, appOwned, libOwned>>
OpenOut == /\ ph = "fresh" /\ Do("openOut", 0)
           /\ ph' = "out" /\ isOpen' = TRUE /\ threads' = 2
           /\ UNCHANGED <<good, eof, n, k, w, appOwned, libOwned>>
(* open(existing file that is not a BLF file, in): FileStatistics::read throws out of open().  The stream is open
   (is_open() is true), the mode is recorded, no worker exists; close() or the destructor end this state *)
OpenGarbage == /\ ph = "fresh" /\ Do("openGarbage", 0)
               /\ ph' = "half" /\ isOpen' = TRUE
               /\ UNCHANGED <<good, eof, n, k, w, threads, appOwned, libOwned>>
(* open() on an open object returns at once *)
OpenAgain == /\ ph \in {"in", "out", "half"} /\ Do("openAgain", 0)
             /\ UNCHANGED <<ph, isOpen, good, eof, n, k, w, threads, appOwned, libOwned>>
Read == /\ ph = "in" /\ Do("read", 0)
        /\ IF k < n THEN /\ k' = k + 1 /\ appOwned' = appOwned + 1 /\ good' = TRUE /\ eof' = FALSE
                    ELSE /\ good' = FALSE /\ eof' = TRUE /\ UNCHANGED <<k, appOwned>>
        /\ UNCHANGED <<ph, isOpen, n, w, threads, libOwned>>
Write == /\ ph = "out" /\ w < MaxWrites /\ Do("write", w + 1)
         /\ w' = w + 1 /\ libOwned' = libOwned + 1
         /\ UNCHANGED <<ph, isOpen, good, eof, n, k, threads, appOwned>>
(* write() after the session has ended: the library takes ownership all the same (the object waits in the queue and
   is released by the destructor) *)
WriteClosed == /\ ph = "closed" /\ w < MaxWrites /\ Do("writeClosed", w + 1)
               /\ w' = w + 1 /\ libOwned' = libOwned + 1
               /\ UNCHANGED <<ph, isOpen, good, eof, n, k, threads, appOwned>>
(* close(): workers joined; a write session has encoded and released every object *)
Close == /\ ph \in {"in", "out", "half", "closed"} /\ Do("close", 0)
         /\ ph' = "closed" /\ isOpen' = FALSE /\ threads' = 0
         /\ libOwned' = IF ph = "out" THEN 0 ELSE libOwned
         /\ UNCHANGED <<good, eof, n, k, w, appOwned>>
(* ~File(): close() if needed, then everything still inside is released; the application deletes its own *)
Destroy == /\ ph # "dead" /\ Do("destroy", 0)
           /\ ph' = "dead" /\ isOpen' = FALSE /\ threads' = 0 /\ libOwned' = 0 /\ appOwned' = 0
           /\ UNCHANGED <<good, eof, n, k, w>>

Next == OpenMissing \/ OpenUnwritable \/ OpenIn \/ OpenOut \/ OpenGarbage \/ OpenAgain \/ Read \/ Write \/ WriteClosed
        \/ Close \/ Destroy
Spec == Init /\ [][Next]_vars

(* C13 *)
NoThreadLeft == ph \in {"fresh", "half", "closed", "dead"} => threads = 0
ReleasedAtEnd == ph = "dead" => libOwned = 0 /\ appOwned = 0
OpenFlag == isOpen <=> ph \in {"in", "out", "half"}
ReadFlags == ph = "in" => (eof <=> ~good) /\ (eof => k = n)
DeliveredBounded == k <= n

Proj == [isOpen |-> isOpen,
         \* good()/eof() are compared while a read session is open (they are racy by design while writing)
         good |-> IF ph = "in" THEN good ELSE TRUE,
         eof |-> IF ph = "in" THEN eof ELSE FALSE,
         k |-> k, w |-> w, dead |-> ph = "dead",
         \* workers may have ended on their own (end of file) while the session is open: compared when closed
         threads |-> IF ph \in {"in", "out", "half"} THEN -1 ELSE threads, leaked |-> 0]
EdgeLog == PrintT(ToJson([s |-> View, a |-> act', t |-> View', pt |-> Proj']))
InitLog == TLCGet("level") = 1 => PrintT(ToJson([init |-> View, a |-> act, pt |-> Proj]))
=============================================================================
