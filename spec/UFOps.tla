------------------------------- MODULE UFOps -------------------------------
(***************************************************************************)
(* UncompressedFile (src/Vector/BLF/UncompressedFile.cpp) as a record plus *)
(* one pure operator per method body.  Used by UncompressedFileSeq,        *)
(* StreamConc, ReadSession and WriteSession.                               *)
(*                                                                         *)
(*   uf == [abort, data, g, p, gc, end, buf, C, rd, dem]                   *)
(*     abort : m_abort                                                     *)
(*     data  : m_data, sequence of [pos, size] (filePosition,              *)
(*             uncompressedFileSize of each LogContainer)                  *)
(*     g, p  : m_tellg, m_tellp                                            *)
(*     gc    : m_gcount                                                    *)
(*     end   : m_fileSize    (Inf = numeric_limits<streamsize>::max())     *)
(*     buf   : m_bufferSize  (Inf likewise)                                *)
(*     C     : m_defaultLogContainerSize                                   *)
(*     rd    : m_rdstate, "good" or "eof" (eofbit|failbit)                 *)
(*     dem   : m_demand, position a blocked read needs data up to (0: none)*)
(* Byte contents are not part of the record: bytes live at absolute stream *)
(* positions, and the geometric invariants below (no overlap, coverage)    *)
(* are what makes position -> cell well defined.                           *)
(***************************************************************************)
EXTENDS Integers, Sequences

UInf == 1000000000
UFInit == [abort |-> FALSE, data |-> <<>>, g |-> 0, p |-> 0, gc |-> 0,
           end |-> UInf, buf |-> UInf, C |-> 131072, rd |-> "good", dem |-> 0]

MinI(a, b) == IF a < b THEN a ELSE b

(* logContainerContaining(pos): index of the FIRST container with pos in [pos, pos+size), 0 if none *)
RECURSIVE ContainingFrom(_, _, _)
ContainingFrom(data, x, i) ==
  IF i > Len(data) THEN 0
  ELSE IF x >= data[i].pos /\ x < data[i].pos + data[i].size THEN i
  ELSE ContainingFrom(data, x, i + 1)
Containing(data, x) == ContainingFrom(data, x, 1)

(* ---- read(s, n) ---- *)
UFReadPred(uf, n) == uf.abort \/ n + uf.g <= uf.p \/ n + uf.g > uf.end

RECURSIVE ReadLoop(_, _, _, _)
ReadLoop(data, g, n, gc) ==
  IF n <= 0 THEN [g |-> g, gc |-> gc]
  ELSE LET i == Containing(data, g) IN
       IF i = 0 THEN [g |-> g, gc |-> gc]
       ELSE LET k == MinI(n, data[i].size - (g - data[i].pos)) IN
            ReadLoop(data, g + k, n - k, gc + k)

UFRead(uf, n) ==
  LET beyond == n + uf.g > uf.end
      n1 == IF beyond THEN uf.end - uf.g ELSE n
      r == ReadLoop(uf.data, uf.g, n1, 0)
  IN [uf EXCEPT !.rd = IF beyond THEN "eof" ELSE @,       \* like an iostream: a failure persists (fix of F18)
                !.g = r.g, !.gc = r.gc, !.dem = 0]
  \* notifies tellgChanged

(* a read whose predicate is false publishes the position it needs before it waits
   (and notifies tellgChanged so that a writer waiting for free space re-evaluates) *)
UFDemand(uf, n) == [uf EXCEPT !.dem = n + uf.g]

(* ---- seekg(off, cur): clamps at the declared end only; notifies tellgChanged ---- *)
UFSeekg(uf, off) == [uf EXCEPT !.g = MinI(uf.g + off, uf.end)]

(* ---- write(s, n): back-pressure evaluated once per call (signed difference) ---- *)
UFWritePred(uf) == uf.abort \/ (uf.p - uf.g) < uf.buf \/ uf.p < uf.dem

RECURSIVE WriteLoop(_, _, _, _)
WriteLoop(data, p, n, C) ==
  IF n <= 0 THEN [data |-> data, p |-> p]
  ELSE LET i == Containing(data, p) IN
       IF i = 0
         THEN \* append a container of the default size, chained to the last one; the first container
              \* of an empty list starts at the put position (fix of F11)
              LET np == IF data = <<>> THEN p ELSE data[Len(data)].pos + data[Len(data)].size
              IN WriteLoop(Append(data, [pos |-> np, size |-> C]), p, n, C)
         ELSE LET k == MinI(n, data[i].size - (p - data[i].pos)) IN
              WriteLoop(data, p + k, n - k, C)

UFWrite(uf, n) ==
  LET r == WriteLoop(uf.data, uf.p, n, uf.C) IN
  [uf EXCEPT !.data = r.data, !.p = r.p, !.end = IF r.p >= @ THEN r.p ELSE @]
  \* notifies tellpChanged

(* ---- write(logContainer): same back-pressure predicate (signed difference since the fix of F7) ---- *)
UFWriteCPred(uf) == uf.abort \/ (uf.p - uf.g) < uf.buf \/ uf.p < uf.dem
(* ---- nextLogContainer: close the container holding p if something was written into it ---- *)
UFNextLogContainer(uf) ==
  LET i == Containing(uf.data, uf.p) IN
  IF i # 0 /\ uf.p - uf.data[i].pos > 0
    THEN [uf EXCEPT !.data[i].size = uf.p - uf.data[i].pos]
    ELSE uf

(* the container open at the put position is closed first (since the fix of F14: before, the appended
   container overlapped it and reads in the overlap returned the old container's zeros) *)
UFWriteC(uf, m) ==
  LET u == UFNextLogContainer(uf) IN
  [u EXCEPT !.data = Append(@, [pos |-> u.p, size |-> m]), !.p = @ + m]
  \* notifies tellpChanged; the declared end is NOT shifted here

(* ---- dropOldData: every front container that is consumed completely (triple guard) ---- *)
RECURSIVE DropLoop(_, _, _, _)
DropLoop(data, g, p, end) ==
  IF data = <<>> THEN data
  ELSE LET e == data[1].pos + data[1].size IN
       IF e > g \/ e > p \/ e > end THEN data
       ELSE DropLoop(Tail(data), g, p, end)
UFDrop(uf) == [uf EXCEPT !.data = DropLoop(uf.data, uf.g, uf.p, uf.end)]

UFSetEnd(uf, n) == [uf EXCEPT !.end = n]        \* notifies tellpChanged
UFSetBuf(uf, b) == [uf EXCEPT !.buf = b]
UFSetC(uf, c)   == [uf EXCEPT !.C = c]
UFAbort(uf)     == [uf EXCEPT !.abort = TRUE]   \* notifies both

(* observers *)
UFGood(uf)  == uf.rd = "good"
UFEof(uf)   == uf.rd = "eof"
UFTellg(uf) == IF uf.rd = "good" THEN uf.g ELSE -1
UFTellp(uf) == IF uf.rd = "good" THEN uf.p ELSE -1

(* bytes held in containers (C12) *)
RECURSIVE SumSizes(_)
SumSizes(data) == IF data = <<>> THEN 0 ELSE data[1].size + SumSizes(Tail(data))
UFHeld(uf) == SumSizes(uf.data)

(* geometry *)
Chained(data) == \A i \in 1..(Len(data) - 1) : data[i + 1].pos = data[i].pos + data[i].size
NoOverlap(data) == \A i, j \in 1..Len(data) :
                      i < j => data[i].pos + data[i].size <= data[j].pos
=============================================================================
