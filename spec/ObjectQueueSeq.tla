--------------------------- MODULE ObjectQueueSeq ---------------------------
(***************************************************************************)
(* Single-threaded histories of ObjectQueue: every operation whose wait    *)
(* predicate holds (a non-blocking call) may happen next.  The histories   *)
(* hin/hout are the reference FIFO the queue is compared with.             *)
(***************************************************************************)
EXTENDS OQOps, SequencesExt, TLC, Json

CONSTANTS MaxObj,      \* at most this many objects are ever written
          Caps         \* set of capacities tried (setBufferSize at start)

VARIABLES oq,          \* the queue (record of OQOps)
          hin, hout,   \* objects written so far / objects returned so far
          ret,         \* result of the last read: object id, 0 = nullptr, -1 = none yet
          act          \* ghost: last operation [op, arg] (excluded by VIEW)

vars == <<oq, hin, hout, ret, act>>
View == <<oq, hin, hout, ret>>

Init == /\ \E c \in Caps : oq = OQSetCap(OQInit, c)
        /\ hin = <<>> /\ hout = <<>> /\ ret = -1
        /\ act = [op |-> "init", arg |-> oq.cap]

Write == /\ Len(hin) < MaxObj
         /\ OQWritePred(oq)
         /\ LET o == Len(hin) + 1 IN
              /\ oq' = OQWrite(oq, o)
              /\ hin' = Append(hin, o)
              /\ act' = [op |-> "write", arg |-> o]
         /\ UNCHANGED <<hout, ret>>

(* "nullptr can be pushed" (ObjectQueue.h): a null entry is an entry like any other - it is counted, delivered in
   order (as a null result with the stream still good) and does not end the stream *)
WriteNull == /\ Len(hin) < MaxObj
             /\ OQWritePred(oq)
             /\ oq' = OQWrite(oq, 0)
             /\ hin' = Append(hin, 0)
             /\ act' = [op |-> "write", arg |-> 0]
             /\ UNCHANGED <<hout, ret>>

Read == /\ OQReadPred(oq)
        /\ oq' = OQRead(oq)
        /\ ret' = OQReadRet(oq)
        /\ hout' = IF oq.q = <<>> THEN hout ELSE Append(hout, Head(oq.q))
        /\ act' = [op |-> "read", arg |-> 0]
        /\ UNCHANGED hin

SetEnd == \E n \in 0..MaxObj :
            /\ oq' = OQSetEnd(oq, n)
            /\ act' = [op |-> "setFileSize", arg |-> n]
            /\ UNCHANGED <<hin, hout, ret>>

Abort == /\ oq' = OQAbort(oq)
         /\ act' = [op |-> "abort", arg |-> 0]
         /\ UNCHANGED <<hin, hout, ret>>

Next == Write \/ WriteNull \/ Read \/ SetEnd \/ Abort
Spec == Init /\ [][Next]_vars

(***************************************************************************)
(* Properties (C16, sequential part)                                       *)
(***************************************************************************)
FifoExactlyOnce == /\ IsPrefix(hout, hin)
                   /\ hin = hout \o oq.q
Counters == oq.g = Len(hout) /\ oq.p = Len(hin) /\ oq.g <= oq.p
CapacityRespected == ~oq.abort => Len(oq.q) <= oq.cap
(* eof|fail is set by exactly those reads that find the queue empty (a queued null entry is not the end) *)
EofFlag == oq.rd = "eof" => ret = 0
EofIffEmpty == [][ act'.op = "read" => ((oq'.rd = "eof") <=> (oq.q = <<>>)) ]_vars
(* a null result only when nothing is queued and (declared size consumed or abort) *)
EofExact == [][ (act'.op = "read" /\ oq'.rd = "eof")
                  => (oq.q = <<>> /\ (oq.g >= oq.end \/ oq.abort)) ]_vars
(* objects remain => read returns the oldest one, never null *)
NeverNullWhileQueued == [][ (act'.op = "read" /\ oq.q # <<>>) => ret' = Head(oq.q) ]_vars
(* the declared end is shifted up by writes, never below p *)
EndCoversPut == oq.end >= oq.p \/ act.op = "setFileSize"

(***************************************************************************)
(* Refinement: with the queue abstracted to its length this is OQAbs.tla,  *)
(* whose counters/capacity invariants Apalache proves for unbounded values *)
(***************************************************************************)
Abs == INSTANCE OQAbs WITH Inf <- Inf, len <- Len(oq.q), g <- oq.g, p <- oq.p, end <- oq.end, cap <- oq.cap,
                           abort <- oq.abort, eof <- OQEof(oq)
RefinesAbs == Abs!Spec

(***************************************************************************)
(* Edge log for conformance mode M1: every generated transition is printed *)
(* as one JSON line; tools/graph.py turns them into a path cover that the  *)
(* harness replays on the real ObjectQueue.                                *)
(***************************************************************************)
Proj == [abort |-> oq.abort, q |-> oq.q, g |-> oq.g, p |-> oq.p,
         end |-> oq.end, cap |-> oq.cap, good |-> OQGood(oq), eof |-> OQEof(oq),
         ret |-> ret]
EdgeLog == PrintT(ToJson([s |-> View, a |-> act', t |-> View', pt |-> Proj']))
InitLog == TLCGet("level") = 1 => PrintT(ToJson([init |-> View, a |-> act, pt |-> Proj]))
=============================================================================
