----------------------------- MODULE QueueConc -----------------------------
(***************************************************************************)
(* ObjectQueue under concurrency: one producer, one consumer, one          *)
(* controller thread, at the grain of the implementation's critical        *)
(* sections.  Condition variables are explicit: a thread whose wait        *)
(* predicate is false enters the wait set of tellgChanged / tellpChanged   *)
(* and can take no step until some critical section notifies that          *)
(* condition variable; it then re-evaluates its predicate.                 *)
(*                                                                         *)
(* One action = one step of the controlled scheduler (harness/vsync.h):    *)
(* from one scheduling point (thread start, mutex acquisition) to the next.*)
(***************************************************************************)
EXTENDS OQOps, SequencesExt, TLC, Json

CONSTANTS Configs     \* set of records [n, cap, scen, k]:
                      \*   n    objects the producer writes
                      \*   cap  queue capacity
                      \*   scen "abort" | "ends" | "setsize" | "none"
                      \*   k    argument of the controller's setFileSize in scenario "setsize"
                      \*   spur number of spurious wake-ups the scheduler may inject (a
                      \*        condition_variable may wake without notify; predicate loops must cope)

Threads == {"P", "C", "K"}

VARIABLES cfg,        \* the configuration of this behaviour (chosen in Init, never changes)
          oq,
          pc,         \* per thread: "start", an operation label, or "done"
          blk,        \* per thread: "" (runnable) or the condition variable it waits on
          nw,         \* objects written so far by P
          tmp,        \* P's local copy of tellp() (scenario "ends")
          got,        \* what the consumer was handed, in order (0 = nullptr)
          spur,       \* spurious wake-ups injected so far
          act         \* ghost: thread that took the last step

vars == <<cfg, oq, pc, blk, nw, tmp, got, spur, act>>
View == <<cfg, oq, pc, blk, nw, tmp, got, spur>>

N == cfg.n
Cap == cfg.cap
Scenario == cfg.scen
K == cfg.k

Init == /\ cfg \in Configs
        /\ oq = OQSetCap(OQInit, cfg.cap)
        /\ pc = [t \in Threads |-> "start"]
        /\ blk = [t \in Threads |-> ""]
        /\ nw = 0 /\ tmp = 0 /\ got = <<>> /\ spur = 0
        /\ act = [op |-> "init", arg |-> cfg]

Notify(b, cvs) == [t \in Threads |-> IF b[t] \in cvs THEN "" ELSE b[t]]
Step(t) == act' = [op |-> t, arg |-> 0] /\ UNCHANGED <<cfg, spur>>
Ready(t, l) == pc[t] = l /\ blk[t] = ""

(* ---- producer ---- *)
PAfterWrites == IF Scenario = "ends" THEN "tellp" ELSE "done"
P_Start == /\ Ready("P", "start") /\ Step("P")
           /\ pc' = [pc EXCEPT !["P"] = IF N > 0 THEN "write" ELSE PAfterWrites]
           /\ UNCHANGED <<oq, blk, nw, tmp, got>>
P_Write == /\ Ready("P", "write") /\ Step("P")
           /\ IF OQWritePred(oq)
                THEN /\ oq' = OQWrite(oq, nw + 1)
                     /\ nw' = nw + 1
                     /\ blk' = Notify(blk, {"tellp"})
                     /\ pc' = [pc EXCEPT !["P"] = IF nw + 1 < N THEN "write" ELSE PAfterWrites]
                ELSE /\ blk' = [blk EXCEPT !["P"] = "tellg"]
                     /\ UNCHANGED <<oq, nw, pc>>
           /\ UNCHANGED <<tmp, got>>
P_Tellp == /\ Ready("P", "tellp") /\ Step("P")
           /\ tmp' = oq.p
           /\ pc' = [pc EXCEPT !["P"] = "setend"]
           /\ UNCHANGED <<oq, blk, nw, got>>
P_SetEnd == /\ Ready("P", "setend") /\ Step("P")
            /\ oq' = OQSetEnd(oq, tmp)
            /\ blk' = Notify(blk, {"tellp"})
            /\ pc' = [pc EXCEPT !["P"] = "done"]
            /\ UNCHANGED <<nw, tmp, got>>

(* ---- consumer: read until nullptr ---- *)
C_Start == /\ Ready("C", "start") /\ Step("C")
           /\ pc' = [pc EXCEPT !["C"] = "read"]
           /\ UNCHANGED <<oq, blk, nw, tmp, got>>
C_Read == /\ Ready("C", "read") /\ Step("C")
          /\ IF OQReadPred(oq)
               THEN /\ oq' = OQRead(oq)
                    /\ got' = Append(got, OQReadRet(oq))
                    /\ blk' = Notify(blk, {"tellg"})
                    /\ pc' = [pc EXCEPT !["C"] = IF OQReadRet(oq) = 0 THEN "done" ELSE "read"]
               ELSE /\ blk' = [blk EXCEPT !["C"] = "tellp"]
                    /\ UNCHANGED <<oq, got, pc>>
          /\ UNCHANGED <<nw, tmp>>

(* ---- controller: one abort() or setFileSize(K) at an arbitrary moment ---- *)
K_Start == /\ Ready("K", "start") /\ Step("K")
           /\ pc' = [pc EXCEPT !["K"] = IF Scenario \in {"abort", "setsize"} THEN "op" ELSE "done"]
           /\ UNCHANGED <<oq, blk, nw, tmp, got>>
K_Op == /\ Ready("K", "op") /\ Step("K")
        /\ IF Scenario = "abort"
             THEN oq' = OQAbort(oq) /\ blk' = Notify(blk, {"tellg", "tellp"})
             ELSE oq' = OQSetEnd(oq, K) /\ blk' = Notify(blk, {"tellp"})
        /\ pc' = [pc EXCEPT !["K"] = "done"]
        /\ UNCHANGED <<nw, tmp, got>>

(* ---- a waiter wakes up although nobody notified it; it re-evaluates its predicate next ---- *)
Spurious == \E t \in {"P", "C"} :
              /\ spur < cfg.spur /\ blk[t] # ""
              /\ blk' = [blk EXCEPT ![t] = ""]
              /\ spur' = spur + 1
              /\ act' = [op |-> "spur", arg |-> t]
              /\ UNCHANGED <<cfg, oq, pc, nw, tmp, got>>

Next == Spurious \/ P_Start \/ P_Write \/ P_Tellp \/ P_SetEnd \/ C_Start \/ C_Read \/ K_Start \/ K_Op
Fair == /\ WF_vars(P_Start \/ P_Write \/ P_Tellp \/ P_SetEnd)
        /\ WF_vars(C_Start \/ C_Read)
        /\ WF_vars(K_Start \/ K_Op)
Spec == Init /\ [][Next]_vars
FairSpec == Spec /\ Fair

AllDone == \A t \in Threads : pc[t] = "done"

(***************************************************************************)
(* Properties (C16, concurrent part)                                       *)
(***************************************************************************)
Written == [i \in 1..nw |-> i]
NonNull(s) == SelectSeq(s, LAMBDA x : x # 0)
(* insertion order, exactly once, nothing lost *)
FifoExactlyOnce == /\ IsPrefix(NonNull(got), Written)
                   /\ Written = NonNull(got) \o oq.q
(* a producer is held back while the queue is at capacity *)
CapacityRespected == ~oq.abort => Len(oq.q) <= Cap
(* nullptr is the last thing the consumer sees, at most once, and only with an empty queue
   after the declared size was consumed or abort was called *)
NullLast == \A i \in 1..Len(got) : got[i] = 0 => i = Len(got)
EofExact == [][ (Len(got') > Len(got) /\ got'[Len(got')] = 0)
                 => (oq.q = <<>> /\ (oq.g >= oq.end \/ oq.abort)) ]_vars
(* wait sets are consistent with predicates: a parked producer saw a full queue that nobody
   has touched since, a parked consumer an empty, un-ended, un-aborted queue *)
WaitersJustified == /\ blk["P"] = "tellg" => ~OQWritePred(oq)
                    /\ blk["C"] = "tellp" => ~OQReadPred(oq)
(* abort() releases every waiter / declared end is reached: everybody finishes *)
Termination == (Scenario \in {"abort", "ends"}) => <>AllDone
(* deadlock freedom in the terminating scenarios: the only state without successor is AllDone *)
DeadlockFree == (Scenario \in {"abort", "ends"} /\ \A t \in Threads : pc[t] = "done" \/ blk[t] # "") => AllDone
(* at the end nothing was lost *)
DoneDeliveredAll == AllDone /\ Scenario \in {"abort", "ends"} => NonNull(got) \o oq.q = [i \in 1..N |-> i]

(***************************************************************************)
(* M1 edge log                                                             *)
(***************************************************************************)
St(t) == IF pc[t] = "done" THEN "done" ELSE IF blk[t] = "" THEN "run" ELSE blk[t]
Proj == [abort |-> oq.abort, q |-> oq.q, g |-> oq.g, p |-> oq.p, end |-> oq.end,
         good |-> OQGood(oq), got |-> got, nw |-> nw,
         stP |-> St("P"), stC |-> St("C"), stK |-> St("K")]
EdgeLog == PrintT(ToJson([s |-> View, a |-> act', t |-> View', pt |-> Proj']))
InitLog == TLCGet("level") = 1 => PrintT(ToJson([init |-> View, a |-> act, pt |-> Proj]))
=============================================================================
