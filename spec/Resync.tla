------------------------------- MODULE Resync -------------------------------
(***************************************************************************)
(* ObjectHeaderBase::read — the signature resynchronisation loop — as an   *)
(* automaton over a byte string in the alphabet {L, O, B, J, x}: the code  *)
(* compares a 4-byte window with "LOBJ" and otherwise tests three masks    *)
(* (bytes 2..4 = "LOB", bytes 3..4 = "LO", byte 4 = "L") to seek back by   *)
(* 3, 2 or 1; it distinguishes no other byte values.                       *)
(*                                                                         *)
(* A behaviour is one call on the stream  filler \o "LOBJ" \o 12 header    *)
(* bytes,  entirely available (no blocking), end of stream declared.       *)
(* Every filler over the alphabet up to length MaxLen that does not        *)
(* contain the signature is an initial state.                              *)
(***************************************************************************)
EXTENDS Integers, Sequences, TLC, Json

CONSTANTS MaxLen, Alphabet

VARIABLES tail,        \* TRUE: the stream ends behind the filler (no further object): the scan must end by
                       \* the end-of-file exception, not spin
          filler,      \* the bytes before the real object
          g,           \* get position
          tmp,         \* the 4-byte window (persists across iterations)
          pc,          \* "read" | "back" | "found" | "eofthrow" | "phantom"
          reads, seeks \* operation counters (compared with the implementation)

vars == <<tail, filler, g, tmp, pc, reads, seeks>>

Sig == <<"L", "O", "B", "J">>
Stream == IF tail THEN filler ELSE filler \o Sig \o [i \in 1..12 |-> "x"]
At(x) == Stream[x + 1]

RECURSIVE Strings(_)
Strings(n) == IF n = 0 THEN {<<>>} ELSE LET S == Strings(n - 1) IN
              S \cup {Append(s, a) : s \in {t \in S : Len(t) = n - 1}, a \in Alphabet}
HasSig(s) == \E i \in 1..(Len(s) - 3) : SubSeq(s, i, i + 3) = Sig
(* a signature must not start inside the filler, not even one completed by the real "LOBJ" *)
Clean(s) == ~HasSig(s \o <<"L", "O", "B">>)

Init == /\ tail \in BOOLEAN
        /\ filler \in {s \in Strings(MaxLen) : Clean(s)}
        /\ g = 0 /\ tmp = <<"x", "x", "x", "x">> /\ pc = "read" /\ reads = 0 /\ seeks = 0

(* is.read(&tmp, 4): everything is available; a read crossing the end is short and sets eof *)
Read == /\ pc = "read"
        /\ LET avail == Len(Stream) - g
               k == IF avail >= 4 THEN 4 ELSE IF avail > 0 THEN avail ELSE 0
               t2 == [i \in 1..4 |-> IF i <= k THEN At(g + i - 1) ELSE tmp[i]]
           IN /\ tmp' = t2 /\ g' = g + k /\ reads' = reads + 1
              /\ pc' = IF t2 = Sig /\ k = 4 THEN "found"
                       ELSE IF t2 = Sig THEN "phantom"     \* short read completed by stale bytes of tmp: the stream
                                                           \* is at its end (eof set), the caller sees !good()
                       ELSE IF k < 4 THEN "eofthrow"
                       ELSE "back"
        /\ UNCHANGED <<tail, filler, seeks>>
SeekBack == /\ pc = "back"
            /\ LET k == IF <<tmp[2], tmp[3], tmp[4]>> = <<"L", "O", "B">> THEN 3
                        ELSE IF <<tmp[3], tmp[4]>> = <<"L", "O">> THEN 2
                        ELSE IF tmp[4] = "L" THEN 1 ELSE 0
               IN /\ g' = g - k /\ seeks' = seeks + (IF k > 0 THEN 1 ELSE 0)
            /\ pc' = "read"
            /\ UNCHANGED <<tail, filler, tmp, reads>>
Next == Read \/ SeekBack
Spec == Init /\ [][Next]_vars

(* C09: the scan stops exactly behind the first signature at or after the start: never skips it,
   never runs into the end of the stream *)
FindsFirstSignature == /\ pc = "found" => (~tail /\ g = Len(filler) + 4)
                       /\ pc \in {"eofthrow", "phantom"} => tail
(* the scan cannot spin: the number of reads is bounded by the stream length *)
Progress == reads <= 2 * Len(Stream) + 2
(* progress: the window start never moves backwards over a whole iteration *)
Terminates == <>(pc = "found")
(* M3 vectors: one line per filler when the scan has ended *)
Vector == pc \in {"found", "eofthrow", "phantom"} =>
            PrintT(ToJson([tail |-> tail, filler |-> filler, g |-> g, reads |-> reads, seeks |-> seeks, found |-> pc = "found"]))
=============================================================================
