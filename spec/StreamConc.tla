----------------------------- MODULE StreamConc -----------------------------
(***************************************************************************)
(* UncompressedFile under concurrency, alone: one writing thread ("W":     *)
(* byte chunks through write(s,n) or whole containers through              *)
(* write(container), then setFileSize(tellp()) like the library's          *)
(* workers), one reading thread ("R": read(n) followed by dropOldData(),   *)
(* until its program ends or a read fails), one controller ("K": abort()   *)
(* at an arbitrary moment, or nothing).  Same grain and wait-set treatment *)
(* as the session specs.  This is where every order relation between read  *)
(* size, chunk size, container size and buffer size is explored            *)
(* exhaustively (the arithmetic core of C06), including the demand a       *)
(* blocked read publishes.                                                 *)
(*   cfg == [name, B, C, mode ("bytes"|"conts"), writes, reads, abort]     *)
(***************************************************************************)
EXTENDS UFOps, SequencesExt, TLC, Json

CONSTANTS Configs

VARIABLES cfg, uf, pc, blk, wk,
          wi, ri,        \* next write / next read of the two programs
          wtmp,          \* W's tellp() result
          total,         \* bytes the reader got
          act
vars == <<cfg, uf, pc, blk, wk, wi, ri, wtmp, total, act>>
View == <<cfg, uf, pc, blk, wk, wi, ri, wtmp, total>>
Threads == {"W", "R", "K"}

Init == /\ cfg \in Configs
        /\ uf = UFSetC(UFSetBuf(UFInit, cfg.B), cfg.C)
        /\ pc = [t \in Threads |-> "start"]
        /\ blk = [t \in Threads |-> ""] /\ wk = {}
        /\ wi = 1 /\ ri = 1 /\ wtmp = 0 /\ total = 0
        /\ act = [op |-> "init", arg |-> cfg]

Ready(t, l) == pc[t] = l /\ blk[t] = ""
Goto(t, l) == pc' = [pc EXCEPT ![t] = l]
Step(t) == act' = [op |-> t, arg |-> 0] /\ UNCHANGED cfg
Sync(self, cvs, selfcv) ==
  /\ blk' = [t \in Threads |-> IF t = self THEN selfcv ELSE IF blk[t] \in cvs THEN "" ELSE blk[t]]
  /\ wk' = (wk \ {self}) \cup {t \in Threads \ {self} : blk[t] \in cvs}
Quiet == UNCHANGED <<blk, wk>>

(* ---- writer ---- *)
W_Start == /\ Ready("W", "start") /\ Step("W")
           /\ Goto("W", IF cfg.writes = <<>> THEN "tellp" ELSE "write")
           /\ UNCHANGED <<uf, wi, ri, wtmp, total>> /\ Quiet
W_Write == /\ Ready("W", "write") /\ Step("W")
           /\ LET n == cfg.writes[wi]
                  pred == IF cfg.mode = "bytes" THEN UFWritePred(uf) ELSE UFWriteCPred(uf) IN
              IF pred
                THEN /\ uf' = IF cfg.mode = "bytes" THEN UFWrite(uf, n) ELSE UFWriteC(uf, n)
                     /\ Sync("W", {"ufp"}, "")
                     /\ wi' = wi + 1
                     /\ Goto("W", IF wi + 1 > Len(cfg.writes) THEN "tellp" ELSE "write")
                ELSE /\ Sync("W", {}, "ufg") /\ UNCHANGED <<uf, wi, pc>>
           /\ UNCHANGED <<ri, wtmp, total>>
W_Tellp == /\ Ready("W", "tellp") /\ Step("W")
           /\ wtmp' = UFTellp(uf) /\ Goto("W", "setend")
           /\ UNCHANGED <<uf, wi, ri, total>> /\ Quiet
W_SetEnd == /\ Ready("W", "setend") /\ Step("W")
            /\ uf' = UFSetEnd(uf, wtmp) /\ Sync("W", {"ufp"}, "") /\ Goto("W", "done")
            /\ UNCHANGED <<wi, ri, wtmp, total>>

(* ---- reader ---- *)
R_Start == /\ Ready("R", "start") /\ Step("R")
           /\ Goto("R", IF cfg.reads = <<>> THEN "done" ELSE "read")
           /\ UNCHANGED <<uf, wi, ri, wtmp, total>> /\ Quiet
R_Read == /\ Ready("R", "read") /\ Step("R")
          /\ LET n == cfg.reads[ri] IN
             IF UFReadPred(uf, n)
               THEN /\ uf' = UFRead(uf, n) /\ Sync("R", {"ufg"}, "")
                    /\ Goto("R", "gcount") /\ UNCHANGED total
               ELSE /\ IF "R" \notin wk THEN uf' = UFDemand(uf, n) /\ Sync("R", {"ufg"}, "ufp")
                                        ELSE uf' = uf /\ Sync("R", {}, "ufp")
                    /\ UNCHANGED <<pc, total>>
          /\ UNCHANGED <<wi, ri, wtmp>>
(* the reader's own calls between two reads: gcount(), good(), dropOldData() *)
R_Gcount == /\ Ready("R", "gcount") /\ Step("R") /\ Goto("R", "good")
            /\ total' = total + uf.gc
            /\ UNCHANGED <<uf, wi, ri, wtmp>> /\ Quiet
R_Good == /\ Ready("R", "good") /\ Step("R")
          /\ Goto("R", IF UFGood(uf) THEN "drop" ELSE "done")
          /\ UNCHANGED <<uf, wi, ri, wtmp, total>> /\ Quiet
R_Drop == /\ Ready("R", "drop") /\ Step("R")
          /\ uf' = UFDrop(uf)
          /\ ri' = ri + 1
          /\ Goto("R", IF ri + 1 > Len(cfg.reads) THEN "done" ELSE "read")
          /\ UNCHANGED <<wi, wtmp, total>> /\ Quiet

(* ---- controller ---- *)
K_Start == /\ Ready("K", "start") /\ Step("K")
           /\ Goto("K", IF cfg.abort THEN "abort" ELSE "done")
           /\ UNCHANGED <<uf, wi, ri, wtmp, total>> /\ Quiet
K_Abort == /\ Ready("K", "abort") /\ Step("K")
           /\ uf' = UFAbort(uf) /\ Sync("K", {"ufg", "ufp"}, "") /\ Goto("K", "done")
           /\ UNCHANGED <<wi, ri, wtmp, total>>

WNext == W_Start \/ W_Write \/ W_Tellp \/ W_SetEnd
RNext == R_Start \/ R_Read \/ R_Gcount \/ R_Good \/ R_Drop
KNext == K_Start \/ K_Abort
Next == WNext \/ RNext \/ KNext
Spec == Init /\ [][Next]_vars
FairSpec == Spec /\ WF_vars(WNext) /\ WF_vars(RNext) /\ WF_vars(KNext)

AllDone == \A t \in Threads : pc[t] = "done"
CanStep(t) == pc[t] # "done" /\ blk[t] = ""
(* C06: no size relation between reads, chunks, containers and the buffer leaves both sides waiting *)
DeadlockFree == (\A t \in Threads : ~CanStep(t)) => AllDone
Termination == <>AllDone
RECURSIVE Sum(_)
Sum(s) == IF s = <<>> THEN 0 ELSE Head(s) + Sum(Tail(s))
Max2(a, b) == IF a > b THEN a ELSE b
RECURSIVE MaxOf(_)
MaxOf(s) == IF s = <<>> THEN 0 ELSE Max2(Head(s), MaxOf(Tail(s)))
(* C15: without abort the reader gets exactly min(requested, written) bytes, in order (positions) *)
BytesExact == (AllDone /\ ~cfg.abort) =>
                total = (IF Sum(cfg.reads) < Sum(cfg.writes) THEN Sum(cfg.reads)
                         ELSE IF uf.rd = "eof" \/ Sum(cfg.reads) = Sum(cfg.writes) THEN Sum(cfg.writes) ELSE total)
(* C12: the buffer bounds what is pending, except for what a blocked read demands *)
PendingBounded == ~uf.abort => uf.p - uf.g < Max2(cfg.B, MaxOf(cfg.reads)) + MaxOf(cfg.writes) + 1

St(t) == IF pc[t] = "done" THEN "done" ELSE IF blk[t] # "" THEN blk[t] ELSE "run"
Proj == [abort |-> uf.abort, g |-> uf.g, p |-> uf.p, gc |-> uf.gc, end |-> uf.end, good |-> UFGood(uf),
         dem |-> uf.dem, data |-> [i \in 1..Len(uf.data) |-> <<uf.data[i].pos, uf.data[i].size>>],
         total |-> total, stW |-> St("W"), stR |-> St("R"), stK |-> St("K")]
EdgeLog == PrintT(ToJson([s |-> View, a |-> act', t |-> View', pt |-> Proj']))
InitLog == TLCGet("level") = 1 => PrintT(ToJson([init |-> View, a |-> act, pt |-> Proj]))
=============================================================================
