---- MODULE Resync_TTrace_1790559696 ----
EXTENDS Sequences, TLCExt, Toolbox, Naturals, TLC, Resync

_expression ==
    LET Resync_TEExpression == INSTANCE Resync_TEExpression
    IN Resync_TEExpression!expression
----

_trace ==
    LET Resync_TETrace == INSTANCE Resync_TETrace
    IN Resync_TETrace!trace
----

_inv ==
    ~(
        TLCGet("level") = Len(_TETrace)
        /\
        pc = ("found")
        /\
        tail = (TRUE)
        /\
        tmp = (<<"L", "O", "B", "J">>)
        /\
        g = (5)
        /\
        filler = (<<"O", "O", "B", "J", "L">>)
        /\
        reads = (2)
        /\
        seeks = (0)
    )
----

_init ==
    /\ seeks = _TETrace[1].seeks
    /\ filler = _TETrace[1].filler
    /\ g = _TETrace[1].g
    /\ tail = _TETrace[1].tail
    /\ pc = _TETrace[1].pc
    /\ reads = _TETrace[1].reads
    /\ tmp = _TETrace[1].tmp
----

_next ==
    /\ \E i,j \in DOMAIN _TETrace:
        /\ \/ /\ j = i + 1
              /\ i = TLCGet("level")
        /\ seeks  = _TETrace[i].seeks
        /\ seeks' = _TETrace[j].seeks
        /\ filler  = _TETrace[i].filler
        /\ filler' = _TETrace[j].filler
        /\ g  = _TETrace[i].g
        /\ g' = _TETrace[j].g
        /\ tail  = _TETrace[i].tail
        /\ tail' = _TETrace[j].tail
        /\ pc  = _TETrace[i].pc
        /\ pc' = _TETrace[j].pc
        /\ reads  = _TETrace[i].reads
        /\ reads' = _TETrace[j].reads
        /\ tmp  = _TETrace[i].tmp
        /\ tmp' = _TETrace[j].tmp

\* Uncomment the ASSUME below to write the states of the error trace
\* to the given file in Json format. Note that you can pass any tuple
\* to `JsonSerialize`. For example, a sub-sequence of _TETrace.
    \* ASSUME
    \*     LET J == INSTANCE Json
    \*         IN J!JsonSerialize("Resync_TTrace_1790559696.json", _TETrace)

=============================================================================

 Note that you can extract this module `Resync_TEExpression`
  to a dedicated file to reuse `expression` (the module in the 
  dedicated `Resync_TEExpression.tla` file takes precedence 
  over the module `Resync_TEExpression` below).

---- MODULE Resync_TEExpression ----
EXTENDS Sequences, TLCExt, Toolbox, Naturals, TLC, Resync

expression == 
    [
        \* To hide variables of the `Resync` spec from the error trace,
        \* remove the variables below.  The trace will be written in the order
        \* of the fields of this record.
        seeks |-> seeks
        ,filler |-> filler
        ,g |-> g
        ,tail |-> tail
        ,pc |-> pc
        ,reads |-> reads
        ,tmp |-> tmp
        
        \* Put additional constant-, state-, and action-level expressions here:
        \* ,_stateNumber |-> _TEPosition
        \* ,_seeksUnchanged |-> seeks = seeks'
        
        \* Format the `seeks` variable as Json value.
        \* ,_seeksJson |->
        \*     LET J == INSTANCE Json
        \*     IN J!ToJson(seeks)
        
        \* Lastly, you may build expressions over arbitrary sets of states by
        \* leveraging the _TETrace operator.  For example, this is how to
        \* count the number of times a spec variable changed up to the current
        \* state in the trace.
        \* ,_seeksModCount |->
        \*     LET F[s \in DOMAIN _TETrace] ==
        \*         IF s = 1 THEN 0
        \*         ELSE IF _TETrace[s].seeks # _TETrace[s-1].seeks
        \*             THEN 1 + F[s-1] ELSE F[s-1]
        \*     IN F[_TEPosition - 1]
    ]

=============================================================================



Parsing and semantic processing can take forever if the trace below is long.
 In this case, it is advised to uncomment the module below to deserialize the
 trace from a generated binary file.

\*
\*---- MODULE Resync_TETrace ----
\*EXTENDS IOUtils, TLC, Resync
\*
\*trace == IODeserialize("Resync_TTrace_1790559696.bin", TRUE)
\*
\*=============================================================================
\*

---- MODULE Resync_TETrace ----
EXTENDS TLC, Resync

trace == 
    <<
    ([pc |-> "read",tail |-> TRUE,tmp |-> <<"x", "x", "x", "x">>,g |-> 0,filler |-> <<"O", "O", "B", "J", "L">>,reads |-> 0,seeks |-> 0]),
    ([pc |-> "back",tail |-> TRUE,tmp |-> <<"O", "O", "B", "J">>,g |-> 4,filler |-> <<"O", "O", "B", "J", "L">>,reads |-> 1,seeks |-> 0]),
    ([pc |-> "read",tail |-> TRUE,tmp |-> <<"O", "O", "B", "J">>,g |-> 4,filler |-> <<"O", "O", "B", "J", "L">>,reads |-> 1,seeks |-> 0]),
    ([pc |-> "found",tail |-> TRUE,tmp |-> <<"L", "O", "B", "J">>,g |-> 5,filler |-> <<"O", "O", "B", "J", "L">>,reads |-> 2,seeks |-> 0])
    >>
----


=============================================================================

---- CONFIG Resync_TTrace_1790559696 ----
CONSTANTS
    MaxLen = 6
    Alphabet = { "L" , "O" , "B" , "J" , "x" }

INVARIANT
    _inv

CHECK_DEADLOCK
    \* CHECK_DEADLOCK off because of PROPERTY or INVARIANT above.
    FALSE

INIT
    _init

NEXT
    _next

CONSTANT
    _TETrace <- _trace

ALIAS
    _expression
=============================================================================
\* Generated on Mon Sep 28 01:41:42 UTC 2026