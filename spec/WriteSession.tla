----------------------------- MODULE WriteSession -----------------------------
(***************************************************************************)
(* A write session of Vector::BLF::File (src/Vector/BLF/File.cpp):         *)
(*                                                                         *)
(*   App --open/write*/close--> ObjectQueue --U--> UncompressedFile --C--> fstream *)
(*                                                                         *)
(* Threads: the application ("A"), uncompressedFileWriteThread ("U") and   *)
(* compressedFileWriteThread ("C").  Grain, scheduling points and the      *)
(* treatment of condition variables are those of ReadSession.              *)
(*                                                                         *)
(* A configuration describes one session:                                  *)
(*   B, Q, C    buffer size, queue capacity, log container size            *)
(*   post       extra scheduling point after notifying queue sections      *)
(*   rp         File::writeRestorePoints                                   *)
(*   objs       objects written, in order: [id, ops, t115]                 *)
(*                ops  the encoder's write(n) calls on the stream          *)
(*   total      sum of all bytes the encoders emit                         *)
(*   held       bound for HeldBounded                                      *)
(***************************************************************************)
EXTENDS UFOps, OQOps, SequencesExt, FiniteSets, TLC, Json

CONSTANTS Configs

VARIABLES cfg,
          uf, oq,
          uRun, cRun,
          objCount, uncSize,     \* currentObjectCount, currentUncompressedFileSize
          fileOut,               \* uncompressed sizes of the containers written to the fstream, in order
          rpo,                   \* number of containers in the file when restorePointsOffset was taken (-1: not yet)
          hdr,                   \* statistics header as rewritten by close(): [count, unc] or "none"
          cfOpen,
          ioOk,                  \* the fstream has not failed (an I/O fault sets badbit: later output is dropped)
          pc, blk, wk,
          nw, atmp,              \* App: objects written, tellp() result
          cur, opi, utmp,        \* U: object in hand (0 none), next encoder op, tellp() result
          csz, cgc,              \* C: container size read for this iteration, gcount of its read
          asz, agc,              \* App (restore point trailer): same
          deleted,               \* ghost: ids deleted by the library
          spur,                  \* spurious wake-ups injected so far (at most cfg.spur)
          act

vars == <<cfg, uf, oq, uRun, cRun, objCount, uncSize, fileOut, rpo, hdr, cfOpen, ioOk, pc, blk, wk,
          nw, atmp, cur, opi, utmp, csz, cgc, asz, agc, deleted, spur, act>>
View == <<cfg, uf, oq, uRun, cRun, objCount, uncSize, fileOut, rpo, hdr, cfOpen, ioOk, pc, blk, wk,
          nw, atmp, cur, opi, utmp, csz, cgc, asz, agc, deleted, spur>>

Threads == {"A", "U", "C"}
StatSize == 144
ContHdr == 32
NObjs == Len(cfg.objs)
Obj(i) == cfg.objs[i]

Init == /\ cfg \in Configs
        /\ uf = UFSetC(UFSetBuf(UFInit, cfg.B), cfg.C)
        /\ oq = OQSetCap(OQInit, cfg.Q)
        /\ uRun = FALSE /\ cRun = FALSE
        /\ objCount = 0 /\ uncSize = 0
        /\ fileOut = <<>> /\ rpo = -1 /\ hdr = [count |-> -1, unc |-> -1]
        /\ cfOpen = FALSE /\ ioOk = TRUE
        /\ pc = [t \in Threads |-> IF t = "A" THEN "start" ELSE "none"]
        /\ blk = [t \in Threads |-> ""] /\ wk = {}
        /\ nw = 0 /\ atmp = 0 /\ cur = 0 /\ opi = 0 /\ utmp = 0
        /\ csz = 0 /\ cgc = 0 /\ asz = 0 /\ agc = 0
        /\ deleted = {}
        /\ spur = 0
        /\ act = [op |-> "init", arg |-> cfg.name]

Ready(t, l) == pc[t] = l /\ blk[t] = ""
Goto(t, l) == pc' = [pc EXCEPT ![t] = l]
Step(t) == act' = [op |-> t, arg |-> 0] /\ UNCHANGED <<cfg, spur>>
Sync(self, cvs, selfcv) ==
  /\ blk' = [t \in Threads |-> IF t = self THEN selfcv ELSE IF blk[t] \in cvs THEN "" ELSE blk[t]]
  /\ wk' = (wk \ {self}) \cup {t \in Threads \ {self} : blk[t] \in cvs}
Quiet == UNCHANGED <<blk, wk>>

Mon == <<uf, oq>>
Flags == <<uRun, cRun>>
Stats == <<objCount, uncSize>>
Out == <<fileOut, rpo, hdr, cfOpen, ioOk>>
ALoc == <<nw, atmp, asz, agc>>
ULoc == <<cur, opi, utmp, deleted>>
CLoc == <<csz, cgc>>

(* a container handed to the fstream reaches the file only while the stream is healthy; the pipeline itself
   (positions, statistics counters, thread flags) does not look at the state of the fstream *)
Stored(n) == IF ioOk THEN Append(fileOut, n) ELSE fileOut

(* one execution of uncompressedFile2CompressedFile() is five stream sections; thread t keeps the
   container size in sz and the gcount in gc.  Used by C in its loop and by A for the trailer. *)

(* ------------------------------------------------------------------ *)
(* Application thread                                                   *)
(* ------------------------------------------------------------------ *)
(* open(): fstream opened, initial statistics header written *)
A_Start == /\ Ready("A", "start") /\ Step("A") /\ Goto("A", "setU")
           /\ cfOpen' = TRUE /\ uncSize' = uncSize + StatSize
           /\ UNCHANGED <<Mon, Flags, objCount, fileOut, rpo, hdr, ioOk, ALoc, ULoc, CLoc>> /\ Quiet
A_SetU == /\ Ready("A", "setU") /\ Step("A")
          /\ uRun' = TRUE /\ Goto("A", "setC")
          /\ UNCHANGED <<Mon, cRun, Stats, Out, ALoc, ULoc, CLoc>> /\ Quiet
A_SetC == /\ Ready("A", "setC") /\ Step("A")
          /\ cRun' = TRUE
          /\ pc' = [pc EXCEPT !["A"] = IF NObjs = 0 THEN "tellp" ELSE "write", !["U"] = "start", !["C"] = "start"]
          /\ UNCHANGED <<Mon, uRun, Stats, Out, ALoc, ULoc, CLoc>> /\ Quiet
AfterWrite(n) == IF n = NObjs THEN "tellp" ELSE "write"
A_Write == /\ Ready("A", "write") /\ Step("A")
           /\ IF OQWritePred(oq)
                THEN /\ oq' = OQWrite(oq, Obj(nw + 1).id)
                     /\ Sync("A", {"oqp"}, "")
                     /\ IF cfg.post THEN Goto("A", "afterWrite") /\ UNCHANGED nw      \* write() has not returned yet
                                     ELSE Goto("A", AfterWrite(nw + 1)) /\ nw' = nw + 1
                ELSE /\ Sync("A", {}, "oqg")
                     /\ UNCHANGED <<oq, pc, nw>>
           /\ UNCHANGED <<uf, Flags, Stats, Out, atmp, asz, agc, ULoc, CLoc>>
A_AfterWrite == /\ Ready("A", "afterWrite") /\ Step("A")
                /\ nw' = nw + 1 /\ Goto("A", AfterWrite(nw + 1))
                /\ UNCHANGED <<Mon, Flags, Stats, Out, atmp, asz, agc, ULoc, CLoc>> /\ Quiet
(* close(), write mode: declare the end of the queue, join U then C *)
A_Tellp == /\ Ready("A", "tellp") /\ Step("A")
           /\ atmp' = oq.p /\ Goto("A", "setend")
           /\ UNCHANGED <<Mon, Flags, Stats, Out, nw, asz, agc, ULoc, CLoc>> /\ Quiet
A_SetEnd == /\ Ready("A", "setend") /\ Step("A")
            /\ oq' = OQSetEnd(oq, atmp) /\ Sync("A", {"oqp"}, "")
            /\ Goto("A", IF cfg.post THEN "afterEnd" ELSE "joinU")
            /\ UNCHANGED <<uf, Flags, Stats, Out, ALoc, ULoc, CLoc>>
A_AfterEnd == /\ Ready("A", "afterEnd") /\ Step("A") /\ Goto("A", "joinU")
              /\ UNCHANGED <<Mon, Flags, Stats, Out, ALoc, ULoc, CLoc>> /\ Quiet
A_JoinU == /\ Ready("A", "joinU") /\ pc["U"] = "done" /\ Step("A") /\ Goto("A", "joinC")
           /\ UNCHANGED <<Mon, Flags, Stats, Out, ALoc, ULoc, CLoc>> /\ Quiet
(* after the joins: optional restore-point trailer, then the final statistics header *)
A_JoinC == /\ Ready("A", "joinC") /\ pc["C"] = "done" /\ Step("A")
           /\ Goto("A", IF cfg.rp THEN "rpNext" ELSE "count")
           /\ UNCHANGED <<Mon, Flags, Stats, Out, ALoc, ULoc, CLoc>> /\ Quiet
A_RpNext == /\ Ready("A", "rpNext") /\ Step("A")
            /\ uf' = UFNextLogContainer(uf)
            /\ rpo' = Len(fileOut)                 \* restorePointsOffset = m_compressedFile.tellp()
            /\ Goto("A", "rpRead")
            /\ UNCHANGED <<oq, Flags, Stats, fileOut, hdr, cfOpen, ioOk, ALoc, ULoc, CLoc>> /\ Quiet
(* readWriteQueue2UncompressedFile() once: the queue is at its declared end, read() returns nullptr *)
A_RpRead == /\ Ready("A", "rpRead") /\ Step("A")
            /\ IF OQReadPred(oq)
                 THEN /\ oq' = OQRead(oq) /\ Sync("A", {"oqg"}, "")
                      /\ Goto("A", IF cfg.post THEN "afterRp" ELSE "rpSz1")
                 ELSE /\ Sync("A", {}, "oqp") /\ UNCHANGED <<oq, pc>>
            /\ UNCHANGED <<uf, Flags, Stats, Out, ALoc, ULoc, CLoc>>
A_AfterRp == /\ Ready("A", "afterRp") /\ Step("A") /\ Goto("A", "rpSz1")
             /\ UNCHANGED <<Mon, Flags, Stats, Out, ALoc, ULoc, CLoc>> /\ Quiet
(* uncompressedFile2CompressedFile() once, on the application thread *)
A_RpSz1 == /\ Ready("A", "rpSz1") /\ Step("A") /\ Goto("A", "rpSz2")
           /\ UNCHANGED <<Mon, Flags, Stats, Out, ALoc, ULoc, CLoc>> /\ Quiet
A_RpSz2 == /\ Ready("A", "rpSz2") /\ Step("A") /\ asz' = uf.C /\ Goto("A", "rpRd")
           /\ UNCHANGED <<Mon, Flags, Stats, Out, nw, atmp, agc, ULoc, CLoc>> /\ Quiet
A_RpRd == /\ Ready("A", "rpRd") /\ Step("A")
          /\ IF UFReadPred(uf, asz)
               THEN /\ uf' = UFRead(uf, asz) /\ Sync("A", {"ufg"}, "") /\ Goto("A", "rpGc")
               ELSE /\ IF "A" \notin wk THEN uf' = UFDemand(uf, asz) /\ Sync("A", {"ufg"}, "ufp")
                                        ELSE uf' = uf /\ Sync("A", {}, "ufp")
                    /\ UNCHANGED pc
          /\ UNCHANGED <<oq, Flags, Stats, Out, ALoc, ULoc, CLoc>>
A_RpGc == /\ Ready("A", "rpGc") /\ Step("A")
          /\ agc' = uf.gc
          /\ fileOut' = Stored(uf.gc)                              \* compress, write the container
          /\ uncSize' = uncSize + ContHdr + uf.gc
          /\ Goto("A", "rpDrop")
          /\ UNCHANGED <<Mon, Flags, objCount, rpo, hdr, cfOpen, ioOk, nw, atmp, asz, ULoc, CLoc>> /\ Quiet
A_RpDrop == /\ Ready("A", "rpDrop") /\ Step("A")
            /\ uf' = UFDrop(uf) /\ Goto("A", "count")
            /\ UNCHANGED <<oq, Flags, Stats, Out, ALoc, ULoc, CLoc>> /\ Quiet
(* fileStatistics.objectCount = currentObjectCount (atomic load); header rewritten; fstream closed *)
A_Count == /\ Ready("A", "count") /\ Step("A")
           /\ hdr' = IF ioOk THEN [count |-> objCount, unc |-> uncSize]
                              ELSE [count |-> 0, unc |-> 0]        \* seekp(0) and the rewrite fail: header of open()
           /\ cfOpen' = FALSE
           /\ Goto("A", "done")
           /\ UNCHANGED <<Mon, Flags, Stats, fileOut, rpo, ioOk, ALoc, ULoc, CLoc>> /\ Quiet

ANext == A_Start \/ A_SetU \/ A_SetC \/ A_Write \/ A_AfterWrite \/ A_Tellp \/ A_SetEnd \/ A_AfterEnd
         \/ A_JoinU \/ A_JoinC \/ A_RpNext \/ A_RpRead \/ A_AfterRp \/ A_RpSz1 \/ A_RpSz2 \/ A_RpRd
         \/ A_RpGc \/ A_RpDrop \/ A_Count

(* ------------------------------------------------------------------ *)
(* uncompressedFileWriteThread                                          *)
(* ------------------------------------------------------------------ *)
U_Start == /\ Ready("U", "start") /\ Step("U") /\ Goto("U", "load")
           /\ UNCHANGED <<Mon, Flags, Stats, Out, ALoc, ULoc, CLoc>> /\ Quiet
U_Load == /\ Ready("U", "load") /\ Step("U")
          /\ Goto("U", IF uRun THEN "qread" ELSE "tellp")
          /\ UNCHANGED <<Mon, Flags, Stats, Out, ALoc, ULoc, CLoc>> /\ Quiet
(* readWriteQueue2UncompressedFile(): take one object (or nullptr at the end) *)
U_QRead == /\ Ready("U", "qread") /\ Step("U")
           /\ IF OQReadPred(oq)
                THEN LET ret == OQReadRet(oq) IN
                     /\ oq' = OQRead(oq) /\ Sync("U", {"oqg"}, "")
                     /\ cur' = ret /\ opi' = 1
                     /\ Goto("U", IF cfg.post THEN "afterQRead" ELSE IF ret = 0 THEN "goodchk" ELSE "op")
                ELSE /\ Sync("U", {}, "oqp") /\ UNCHANGED <<oq, pc, cur, opi>>
           /\ UNCHANGED <<uf, Flags, Stats, Out, ALoc, utmp, deleted, CLoc>>
U_AfterQRead == /\ Ready("U", "afterQRead") /\ Step("U")
                /\ Goto("U", IF cur = 0 THEN "goodchk" ELSE "op")
                /\ UNCHANGED <<Mon, Flags, Stats, Out, ALoc, ULoc, CLoc>> /\ Quiet
(* ohb->write(m_uncompressedFile): the encoder's write(n) calls, each with its own back-pressure wait *)
ObjOf(id) == CHOOSE i \in 1..NObjs : Obj(i).id = id
UOps == Obj(ObjOf(cur)).ops
Is115 == Obj(ObjOf(cur)).t115
(* after the last write: `if (type != Unknown115) currentObjectCount++` (atomic, a scheduling point),
   then `delete ohb`; for Unknown115 the delete happens in the step of the last write *)
U_Op == /\ Ready("U", "op") /\ Step("U")
        /\ IF UFWritePred(uf)
             THEN LET last == opi + 1 > Len(UOps) IN
                  /\ uf' = UFWrite(uf, UOps[opi])
                  /\ Sync("U", {"ufp"}, "")
                  /\ opi' = opi + 1
                  /\ Goto("U", IF ~last THEN "op" ELSE IF Is115 THEN "goodchk" ELSE "count")
                  /\ deleted' = IF last /\ Is115 THEN deleted \cup {cur} ELSE deleted
             ELSE /\ Sync("U", {}, "ufg") /\ UNCHANGED <<uf, pc, opi, deleted>>
        /\ UNCHANGED <<oq, Flags, Stats, Out, ALoc, cur, utmp, CLoc>>
U_Count == /\ Ready("U", "count") /\ Step("U")
           /\ objCount' = objCount + 1
           /\ deleted' = deleted \cup {cur}                 \* delete ohb (thread-local, same step)
           /\ Goto("U", "goodchk")
           /\ UNCHANGED <<Mon, Flags, uncSize, Out, ALoc, cur, opi, utmp, CLoc>> /\ Quiet
U_GoodChk == /\ Ready("U", "goodchk") /\ Step("U")
             /\ Goto("U", IF OQGood(oq) THEN "load" ELSE "clrbad")
             /\ UNCHANGED <<Mon, Flags, Stats, Out, ALoc, ULoc, CLoc>> /\ Quiet
U_ClrBad == /\ Ready("U", "clrbad") /\ Step("U")
            /\ uRun' = FALSE /\ Goto("U", "load")
            /\ UNCHANGED <<Mon, cRun, Stats, Out, ALoc, ULoc, CLoc>> /\ Quiet
U_Tellp == /\ Ready("U", "tellp") /\ Step("U")
           /\ utmp' = UFTellp(uf) /\ Goto("U", "setend")
           /\ UNCHANGED <<Mon, Flags, Stats, Out, ALoc, cur, opi, deleted, CLoc>> /\ Quiet
U_SetEnd == /\ Ready("U", "setend") /\ Step("U")
            /\ uf' = UFSetEnd(uf, utmp) /\ Sync("U", {"ufp"}, "")
            /\ Goto("U", "done")
            /\ UNCHANGED <<oq, Flags, Stats, Out, ALoc, ULoc, CLoc>>

UNext == U_Start \/ U_Load \/ U_QRead \/ U_AfterQRead \/ U_Op \/ U_Count \/ U_GoodChk
         \/ U_ClrBad \/ U_Tellp \/ U_SetEnd

(* ------------------------------------------------------------------ *)
(* compressedFileWriteThread                                            *)
(* ------------------------------------------------------------------ *)
C_Start == /\ Ready("C", "start") /\ Step("C") /\ Goto("C", "load")
           /\ UNCHANGED <<Mon, Flags, Stats, Out, ALoc, ULoc, CLoc>> /\ Quiet
C_Load == /\ Ready("C", "load") /\ Step("C")
          /\ Goto("C", IF cRun THEN "sz1" ELSE "done")
          /\ UNCHANGED <<Mon, Flags, Stats, Out, ALoc, ULoc, CLoc>> /\ Quiet
C_Sz1 == /\ Ready("C", "sz1") /\ Step("C") /\ Goto("C", "sz2")
         /\ UNCHANGED <<Mon, Flags, Stats, Out, ALoc, ULoc, CLoc>> /\ Quiet
C_Sz2 == /\ Ready("C", "sz2") /\ Step("C") /\ csz' = uf.C /\ Goto("C", "rd")
         /\ UNCHANGED <<Mon, Flags, Stats, Out, ALoc, ULoc, cgc>> /\ Quiet
C_Rd == /\ Ready("C", "rd") /\ Step("C")
        /\ IF UFReadPred(uf, csz)
             THEN /\ uf' = UFRead(uf, csz) /\ Sync("C", {"ufg"}, "") /\ Goto("C", "gc")
             ELSE /\ IF "C" \notin wk THEN uf' = UFDemand(uf, csz) /\ Sync("C", {"ufg"}, "ufp")
                                      ELSE uf' = uf /\ Sync("C", {}, "ufp")
                  /\ UNCHANGED pc
        /\ UNCHANGED <<oq, Flags, Stats, Out, ALoc, ULoc, CLoc>>
C_Gc == /\ Ready("C", "gc") /\ Step("C")
        /\ cgc' = uf.gc
        /\ fileOut' = Stored(uf.gc)
        /\ uncSize' = uncSize + ContHdr + uf.gc
        /\ Goto("C", "drop")
        /\ UNCHANGED <<Mon, Flags, objCount, rpo, hdr, cfOpen, ioOk, ALoc, ULoc, csz>> /\ Quiet
C_Drop == /\ Ready("C", "drop") /\ Step("C")
          /\ uf' = UFDrop(uf) /\ Goto("C", "goodchk")
          /\ UNCHANGED <<oq, Flags, Stats, Out, ALoc, ULoc, CLoc>> /\ Quiet
C_GoodChk == /\ Ready("C", "goodchk") /\ Step("C")
             /\ Goto("C", IF UFGood(uf) THEN "load" ELSE "clrbad")
             /\ UNCHANGED <<Mon, Flags, Stats, Out, ALoc, ULoc, CLoc>> /\ Quiet
C_ClrBad == /\ Ready("C", "clrbad") /\ Step("C")
            /\ cRun' = FALSE /\ Goto("C", "load")
            /\ UNCHANGED <<Mon, uRun, Stats, Out, ALoc, ULoc, CLoc>> /\ Quiet

CNext == C_Start \/ C_Load \/ C_Sz1 \/ C_Sz2 \/ C_Rd \/ C_Gc \/ C_Drop \/ C_GoodChk \/ C_ClrBad

(* a condition variable may wake a waiter without any notify; the waiter re-evaluates its predicate *)
Spurious == \E t \in Threads :
              /\ spur < cfg.spur /\ blk[t] # ""
              /\ blk' = [blk EXCEPT ![t] = ""] /\ wk' = wk \cup {t}
              /\ spur' = spur + 1
              /\ act' = [op |-> "spur", arg |-> t]
              /\ UNCHANGED <<cfg, uf, oq, uRun, cRun, objCount, uncSize, fileOut, rpo, hdr, cfOpen, ioOk, pc, nw, atmp, cur, opi, utmp, csz, cgc, asz, agc, deleted>>

(* environment: the output file fails (disk full, quota, medium removed) at any moment while it is open, at most
   once per session and only in configurations that ask for it (cfg.fault = 1).  From then on the fstream drops
   what it is given.  No thread is told: every API call must still return and every object must still be released. *)
IOFail == /\ cfg.fault = 1 /\ ioOk /\ cfOpen
          /\ ioOk' = FALSE
          /\ act' = [op |-> "fault", arg |-> 0]
          /\ UNCHANGED <<cfg, uf, oq, uRun, cRun, objCount, uncSize, fileOut, rpo, hdr, cfOpen, pc, blk, wk, nw, atmp, cur, opi, utmp, csz, cgc, asz, agc, deleted, spur>>

Next == ANext \/ UNext \/ CNext \/ Spurious \/ IOFail
Spec == Init /\ [][Next]_vars
FairSpec == Spec /\ WF_vars(ANext) /\ WF_vars(UNext) /\ WF_vars(CNext)

(***************************************************************************)
(* Properties                                                              *)
(***************************************************************************)
AllDone == \A t \in Threads : pc[t] = "done"
CanStep(t) == /\ pc[t] \notin {"done", "none"} /\ blk[t] = ""
              /\ (t = "A" /\ pc[t] = "joinC") => pc["C"] = "done"
              /\ (t = "A" /\ pc[t] = "joinU") => pc["U"] = "done"
DeadlockFree == (\A t \in Threads : ~CanStep(t)) => AllDone
Termination == <>AllDone

(* C04/C07/C14: the container sequence is a function of the bytes and the configuration only:
   full containers, then the remainder (possibly empty), then the empty trailer *)
RECURSIVE Chop(_, _)
Chop(t, c) == IF t >= c THEN <<c>> \o Chop(t - c, c) ELSE <<t>>
ExpectedOut == Chop(cfg.total, cfg.C) \o (IF cfg.rp THEN <<0>> ELSE <<>>)
FileOutUnique == (AllDone /\ ioOk) => fileOut = ExpectedOut
(* after an I/O fault the file holds the containers written before it: a prefix of the fault-free output *)
FaultPrefix == IsPrefix(fileOut, ExpectedOut)
NoOversize == \A i \in 1..Len(fileOut) : fileOut[i] <= cfg.C
RECURSIVE SumSeq(_)
SumSeq(s) == IF s = <<>> THEN 0 ELSE Head(s) + SumSeq(Tail(s))
(* C05: statistics *)
N115 == Cardinality({i \in 1..NObjs : Obj(i).t115})
StatsExact == (AllDone /\ ioOk) =>
                         /\ hdr.count = NObjs - N115
                         /\ hdr.unc = StatSize + ContHdr * Len(fileOut) + SumSeq(fileOut)
                         /\ SumSeq(fileOut) = cfg.total
                         /\ (cfg.rp => rpo = Len(fileOut) - 1)
(* C13: every object passed to write() is deleted exactly once by the library *)
AllDeleted == AllDone => deleted = {Obj(i).id : i \in 1..NObjs}
(* C12 *)
QueueBounded == Len(oq.q) <= cfg.Q
HeldBounded == UFHeld(uf) <= cfg.held

(***************************************************************************)
(* Refinement: what the application and the file system see is a behaviour *)
(* of the sequential contract FileContract.tla (writing part)              *)
(***************************************************************************)
ObjBytes == [i \in 1..NObjs |-> SumSeq(Obj(i).ops)]
FC == INSTANCE FileContract WITH sizes <- ObjBytes, acc <- oq.p,   \* accepted = entered the queue
                                 flushed <- SumSeq(fileOut), closed <- AllDone,
                                 file <- <<>>, out <- <<>>, closing <- FALSE
RefinesContract == FC!WriteSpec

(***************************************************************************)
(* M1 edge log                                                             *)
(***************************************************************************)
St(t) == IF pc[t] = "none" THEN "none"
         ELSE IF pc[t] = "done" THEN "done"
         ELSE IF blk[t] # "" THEN blk[t]
         ELSE IF t = "A" /\ pc[t] = "joinC" /\ pc["C"] # "done" THEN "join"
         ELSE IF t = "A" /\ pc[t] = "joinU" /\ pc["U"] # "done" THEN "join"
         ELSE "run"
Proj == [uf |-> [abort |-> uf.abort, g |-> uf.g, p |-> uf.p, gc |-> uf.gc, end |-> uf.end,
                 good |-> UFGood(uf), dem |-> uf.dem,
                 data |-> [i \in 1..Len(uf.data) |-> <<uf.data[i].pos, uf.data[i].size>>]],
         oq |-> [abort |-> oq.abort, g |-> oq.g, p |-> oq.p, end |-> oq.end, good |-> OQGood(oq),
                 q |-> oq.q],
         uRun |-> uRun, cRun |-> cRun, cfOpen |-> cfOpen, ioOk |-> ioOk,
         objCount |-> objCount, uncSize |-> uncSize,
         nw |-> nw,
         out |-> IF AllDone THEN fileOut ELSE <<>>,
         hdr |-> IF AllDone THEN <<hdr.count, hdr.unc>> ELSE <<>>,
         stA |-> St("A"), stU |-> St("U"), stC |-> St("C")]
EdgeLog == PrintT(ToJson([s |-> View, a |-> act', t |-> View', pt |-> Proj']))
InitLog == TLCGet("level") = 1 => PrintT(ToJson([init |-> View, a |-> act, pt |-> Proj]))
=============================================================================
