------------------------------ MODULE Registry ------------------------------
(***************************************************************************)
(* The type registry of the BLF format as the library documents it (the    *)
(* annotated include list of File.h, which follows Vector's binlog object  *)
(* type list): object type code -> class, "none" for UNKNOWN, reserved and  *)
(* unassigned codes.  Frozen here; checks never regenerate it from the     *)
(* tree under test.  PadTypes is the set of types that are followed by     *)
(* objectSize % 4 padding bytes in the Vector-produced reference logs.      *)
(***************************************************************************)
EXTENDS Integers, Sequences, FiniteSets

ClassOf(code) ==
  CASE code = 0 -> "none"   \* UNKNOWN
    [] code = 1 -> "CanMessage"   \* CAN_MESSAGE
    [] code = 2 -> "CanErrorFrame"   \* CAN_ERROR
    [] code = 3 -> "CanOverloadFrame"   \* CAN_OVERLOAD
    [] code = 4 -> "CanDriverStatistic"   \* CAN_STATISTIC
    [] code = 5 -> "AppTrigger"   \* APP_TRIGGER
    [] code = 6 -> "EnvironmentVariable"   \* ENV_INTEGER
    [] code = 7 -> "EnvironmentVariable"   \* ENV_DOUBLE
    [] code = 8 -> "EnvironmentVariable"   \* ENV_STRING
    [] code = 9 -> "EnvironmentVariable"   \* ENV_DATA
    [] code = 10 -> "LogContainer"   \* LOG_CONTAINER
    [] code = 11 -> "LinMessage"   \* LIN_MESSAGE
    [] code = 12 -> "LinCrcError"   \* LIN_CRC_ERROR
    [] code = 13 -> "LinDlcInfo"   \* LIN_DLC_INFO
    [] code = 14 -> "LinReceiveError"   \* LIN_RCV_ERROR
    [] code = 15 -> "LinSendError"   \* LIN_SND_ERROR
    [] code = 16 -> "LinSlaveTimeout"   \* LIN_SLV_TIMEOUT
    [] code = 17 -> "LinSchedulerModeChange"   \* LIN_SCHED_MODCH
    [] code = 18 -> "LinSyncError"   \* LIN_SYN_ERROR
    [] code = 19 -> "LinBaudrateEvent"   \* LIN_BAUDRATE
    [] code = 20 -> "LinSleepModeEvent"   \* LIN_SLEEP
    [] code = 21 -> "LinWakeupEvent"   \* LIN_WAKEUP
    [] code = 22 -> "MostSpy"   \* MOST_SPY
    [] code = 23 -> "MostCtrl"   \* MOST_CTRL
    [] code = 24 -> "MostLightLock"   \* MOST_LIGHTLOCK
    [] code = 25 -> "MostStatistic"   \* MOST_STATISTIC
    [] code = 26 -> "none"   \* Reserved26
    [] code = 27 -> "none"   \* Reserved27
    [] code = 28 -> "none"   \* Reserved28
    [] code = 29 -> "FlexRayData"   \* FLEXRAY_DATA
    [] code = 30 -> "FlexRaySync"   \* FLEXRAY_SYNC
    [] code = 31 -> "CanDriverError"   \* CAN_DRIVER_ERROR
    [] code = 32 -> "MostPkt"   \* MOST_PKT
    [] code = 33 -> "MostPkt2"   \* MOST_PKT2
    [] code = 34 -> "MostHwMode"   \* MOST_HWMODE
    [] code = 35 -> "MostReg"   \* MOST_REG
    [] code = 36 -> "MostGenReg"   \* MOST_GENREG
    [] code = 37 -> "MostNetState"   \* MOST_NETSTATE
    [] code = 38 -> "MostDataLost"   \* MOST_DATALOST
    [] code = 39 -> "MostTrigger"   \* MOST_TRIGGER
    [] code = 40 -> "FlexRayV6StartCycleEvent"   \* FLEXRAY_CYCLE
    [] code = 41 -> "FlexRayV6Message"   \* FLEXRAY_MESSAGE
    [] code = 42 -> "LinChecksumInfo"   \* LIN_CHECKSUM_INFO
    [] code = 43 -> "LinSpikeEvent"   \* LIN_SPIKE_EVENT
    [] code = 44 -> "CanDriverHwSync"   \* CAN_DRIVER_SYNC
    [] code = 45 -> "FlexRayStatusEvent"   \* FLEXRAY_STATUS
    [] code = 46 -> "GpsEvent"   \* GPS_EVENT
    [] code = 47 -> "FlexRayVFrError"   \* FR_ERROR
    [] code = 48 -> "FlexRayVFrStatus"   \* FR_STATUS
    [] code = 49 -> "FlexRayVFrStartCycle"   \* FR_STARTCYCLE
    [] code = 50 -> "FlexRayVFrReceiveMsg"   \* FR_RCVMESSAGE
    [] code = 51 -> "RealtimeClock"   \* REALTIMECLOCK
    [] code = 52 -> "none"   \* Reserved52
    [] code = 53 -> "none"   \* Reserved53
    [] code = 54 -> "LinStatisticEvent"   \* LIN_STATISTIC
    [] code = 55 -> "J1708Message"   \* J1708_MESSAGE
    [] code = 56 -> "J1708Message"   \* J1708_VIRTUAL_MSG
    [] code = 57 -> "LinMessage2"   \* LIN_MESSAGE2
    [] code = 58 -> "LinSendError2"   \* LIN_SND_ERROR2
    [] code = 59 -> "LinSyncError2"   \* LIN_SYN_ERROR2
    [] code = 60 -> "LinCrcError2"   \* LIN_CRC_ERROR2
    [] code = 61 -> "LinReceiveError2"   \* LIN_RCV_ERROR2
    [] code = 62 -> "LinWakeupEvent2"   \* LIN_WAKEUP2
    [] code = 63 -> "LinSpikeEvent2"   \* LIN_SPIKE_EVENT2
    [] code = 64 -> "LinLongDomSignalEvent"   \* LIN_LONG_DOM_SIG
    [] code = 65 -> "AppText"   \* APP_TEXT
    [] code = 66 -> "FlexRayVFrReceiveMsgEx"   \* FR_RCVMESSAGE_EX
    [] code = 67 -> "MostStatisticEx"   \* MOST_STATISTICEX
    [] code = 68 -> "MostTxLight"   \* MOST_TXLIGHT
    [] code = 69 -> "MostAllocTab"   \* MOST_ALLOCTAB
    [] code = 70 -> "MostStress"   \* MOST_STRESS
    [] code = 71 -> "EthernetFrame"   \* ETHERNET_FRAME
    [] code = 72 -> "SystemVariable"   \* SYS_VARIABLE
    [] code = 73 -> "CanErrorFrameExt"   \* CAN_ERROR_EXT
    [] code = 74 -> "CanDriverErrorExt"   \* CAN_DRIVER_ERROR_EXT
    [] code = 75 -> "LinLongDomSignalEvent2"   \* LIN_LONG_DOM_SIG2
    [] code = 76 -> "Most150Message"   \* MOST_150_MESSAGE
    [] code = 77 -> "Most150Pkt"   \* MOST_150_PKT
    [] code = 78 -> "MostEthernetPkt"   \* MOST_ETHERNET_PKT
    [] code = 79 -> "Most150MessageFragment"   \* MOST_150_MESSAGE_FRAGMENT
    [] code = 80 -> "Most150PktFragment"   \* MOST_150_PKT_FRAGMENT
    [] code = 81 -> "MostEthernetPktFragment"   \* MOST_ETHERNET_PKT_FRAGMENT
    [] code = 82 -> "MostSystemEvent"   \* MOST_SYSTEM_EVENT
    [] code = 83 -> "Most150AllocTab"   \* MOST_150_ALLOCTAB
    [] code = 84 -> "Most50Message"   \* MOST_50_MESSAGE
    [] code = 85 -> "Most50Pkt"   \* MOST_50_PKT
    [] code = 86 -> "CanMessage2"   \* CAN_MESSAGE2
    [] code = 87 -> "LinUnexpectedWakeup"   \* LIN_UNEXPECTED_WAKEUP
    [] code = 88 -> "LinShortOrSlowResponse"   \* LIN_SHORT_OR_SLOW_RESPONSE
    [] code = 89 -> "LinDisturbanceEvent"   \* LIN_DISTURBANCE_EVENT
    [] code = 90 -> "SerialEvent"   \* SERIAL_EVENT
    [] code = 91 -> "DriverOverrun"   \* OVERRUN_ERROR
    [] code = 92 -> "EventComment"   \* EVENT_COMMENT
    [] code = 93 -> "WlanFrame"   \* WLAN_FRAME
    [] code = 94 -> "WlanStatistic"   \* WLAN_STATISTIC
    [] code = 95 -> "MostEcl"   \* MOST_ECL
    [] code = 96 -> "GlobalMarker"   \* GLOBAL_MARKER
    [] code = 97 -> "AfdxFrame"   \* AFDX_FRAME
    [] code = 98 -> "AfdxStatistic"   \* AFDX_STATISTIC
    [] code = 99 -> "KLineStatusEvent"   \* KLINE_STATUSEVENT
    [] code = 100 -> "CanFdMessage"   \* CAN_FD_MESSAGE
    [] code = 101 -> "CanFdMessage64"   \* CAN_FD_MESSAGE_64
    [] code = 102 -> "EthernetRxError"   \* ETHERNET_RX_ERROR
    [] code = 103 -> "EthernetStatus"   \* ETHERNET_STATUS
    [] code = 104 -> "CanFdErrorFrame64"   \* CAN_FD_ERROR_64
    [] code = 105 -> "LinShortOrSlowResponse2"   \* LIN_SHORT_OR_SLOW_RESPONSE2
    [] code = 106 -> "AfdxStatus"   \* AFDX_STATUS
    [] code = 107 -> "AfdxBusStatistic"   \* AFDX_BUS_STATISTIC
    [] code = 108 -> "none"   \* Reserved108
    [] code = 109 -> "AfdxErrorEvent"   \* AFDX_ERROR_EVENT
    [] code = 110 -> "A429Error"   \* A429_ERROR
    [] code = 111 -> "A429Status"   \* A429_STATUS
    [] code = 112 -> "A429BusStatistic"   \* A429_BUS_STATISTIC
    [] code = 113 -> "A429Message"   \* A429_MESSAGE
    [] code = 114 -> "EthernetStatistic"   \* ETHERNET_STATISTIC
    [] code = 115 -> "RestorePointContainer"   \* Unknown115
    [] code = 116 -> "none"   \* Reserved116
    [] code = 117 -> "none"   \* Reserved117
    [] code = 118 -> "TestStructure"   \* TEST_STRUCTURE
    [] code = 119 -> "DiagRequestInterpretation"   \* DIAG_REQUEST_INTERPRETATION
    [] code = 120 -> "EthernetFrameEx"   \* ETHERNET_FRAME_EX
    [] code = 121 -> "EthernetFrameForwarded"   \* ETHERNET_FRAME_FORWARDED
    [] code = 122 -> "EthernetErrorEx"   \* ETHERNET_ERROR_EX
    [] code = 123 -> "EthernetErrorForwarded"   \* ETHERNET_ERROR_FORWARDED
    [] code = 124 -> "FunctionBus"   \* FUNCTION_BUS
    [] code = 125 -> "DataLostBegin"   \* DATA_LOST_BEGIN
    [] code = 126 -> "DataLostEnd"   \* DATA_LOST_END
    [] code = 127 -> "WaterMarkEvent"   \* WATER_MARK_EVENT
    [] code = 128 -> "TriggerCondition"   \* TRIGGER_CONDITION
    [] code = 129 -> "CanSettingChanged"   \* CAN_SETTING_CHANGED
    [] code = 130 -> "DistributedObjectMember"   \* DISTRIBUTED_OBJECT_MEMBER
    [] code = 131 -> "AttributeEvent"   \* ATTRIBUTE_EVENT
    [] OTHER -> "none"

PadTypes == {6, 7, 8, 9, 32, 33, 65, 69, 71, 72, 76, 77, 78, 79, 80, 81, 83, 84, 85, 90, 92, 93, 96, 97, 102}

(* header kinds: bytes before the type-specific part, and headerVersion *)
HeaderSize(kind) == CASE kind = "base" -> 16 [] kind = "v1" -> 32 [] kind = "v2" -> 40 [] kind = "var" -> 32
HeaderVersion(kind) == CASE kind = "base" -> 1 [] kind = "v1" -> 1 [] kind = "v2" -> 2 [] kind = "var" -> 1
Pad(code, osz) == IF code \in PadTypes THEN osz % 4 ELSE 0
(***************************************************************************)
(* Members the encoder derives from the payload by design (length / count   *)
(* fields).  Every other member is a field value: the encoder writes what   *)
(* the caller (or the decoder) put there.  Frozen from the pinned tree      *)
(* after the repairs of DESIGN section 7 (GlobalMarker, AttributeEvent ...).*)
(***************************************************************************)
EncoderOwned(cls) ==
  CASE cls = "AfdxFrame" -> {"payLoadLength"}
       [] cls = "AppText" -> {"textLength"}
       [] cls = "AttributeEvent" -> {"attributeDefinitionPathLength", "dataLength", "mainAttributableObjectPathLength", "memberPathLength"}
       [] cls = "CanFdErrorFrame64" -> {"validDataBytes"}
       [] cls = "CanFdMessage64" -> {"validDataBytes"}
       [] cls = "DiagRequestInterpretation" -> {"ecuQualifierLength", "serviceQualifierLength", "variantQualifierLength"}
       [] cls = "DistributedObjectMember" -> {"dataLength", "pathLength"}
       [] cls = "EnvironmentVariable" -> {"dataLength", "nameLength"}
       [] cls = "EthernetErrorEx" -> {"frameLength", "structLength"}
       [] cls = "EthernetErrorForwarded" -> {"frameLength", "structLength"}
       [] cls = "EthernetFrame" -> {"payLoadLength"}
       [] cls = "EthernetFrameEx" -> {"frameLength", "structLength"}
       [] cls = "EthernetFrameForwarded" -> {"frameLength", "structLength"}
       [] cls = "EthernetRxError" -> {"frameDataLength", "structLength"}
       [] cls = "EventComment" -> {"textLength"}
       [] cls = "FlexRayVFrReceiveMsgEx" -> {"dataCount"}
       [] cls = "FunctionBus" -> {"dataLength", "nameLength"}
       [] cls = "GlobalMarker" -> {"descriptionLength", "groupNameLength", "markerNameLength"}
       [] cls = "Most150AllocTab" -> {"length"}
       [] cls = "Most150Message" -> {"msgLen"}
       [] cls = "Most150MessageFragment" -> {"firstDataLen"}
       [] cls = "Most150Pkt" -> {"pktDataLength"}
       [] cls = "Most150PktFragment" -> {"firstDataLen"}
       [] cls = "Most50Message" -> {"msgLen"}
       [] cls = "Most50Pkt" -> {"pktDataLength"}
       [] cls = "MostAllocTab" -> {"length"}
       [] cls = "MostEthernetPkt" -> {"pktDataLength"}
       [] cls = "MostEthernetPktFragment" -> {"firstDataLen"}
       [] cls = "MostPkt" -> {"pktDataLength"}
       [] cls = "MostPkt2" -> {"pktDataLength"}
       [] cls = "RestorePointContainer" -> {"dataLength"}
       [] cls = "SerialEvent" -> {"general.dataLength", "general.timeStampsLength"}
       [] cls = "SystemVariable" -> {"dataLength", "nameLength"}
       [] cls = "TestStructure" -> {"executingObjectNameLength", "nameLength", "textLength"}
       [] cls = "TriggerCondition" -> {"triggerBlockNameLength", "triggerConditionLength"}
       [] cls = "WlanFrame" -> {"frameLength"}
       [] OTHER -> {}
OwnedOK(cls, members) == \A i \in 1..Len(members) : members[i] \in EncoderOwned(cls)
=============================================================================
