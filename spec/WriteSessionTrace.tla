-------------------------- MODULE WriteSessionTrace --------------------------
(***************************************************************************)
(* Trace validation (mode M2): a recorded execution of a real write session *)
(* under a seeded random schedule of the controlled scheduler - one line   *)
(* per scheduler step: the thread that stepped and the projection of the   *)
(* real state afterwards - must be a behaviour of WriteSession.  Every      *)
(* invariant of WriteSession is evaluated in every state of the trace.      *)
(***************************************************************************)
EXTENDS WriteSession, IOUtils

TraceLog == ndJsonDeserialize(IOEnv.TRACE)

VARIABLE l                       \* next line of the trace
tvars == <<vars, l>>

TInit == Init /\ l = 1 /\ Proj = TraceLog[1].pt /\ TraceLog[1].e = "Reset"

TStep == /\ l < Len(TraceLog)
         /\ LET ev == TraceLog[l + 1] IN
              /\ CASE ev.e = "A" -> ANext
                   [] ev.e = "U" -> UNext
                   [] ev.e = "C" -> CNext
                   [] ev.e = "fault" -> IOFail
                   [] OTHER -> FALSE
              /\ Proj' = ev.pt
         /\ l' = l + 1
TSpec == TInit /\ [][TStep]_tvars

(* the trace is accepted iff its last line is reached: violated = accepted *)
NotAccepted == l < Len(TraceLog)
=============================================================================
