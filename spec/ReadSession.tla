----------------------------- MODULE ReadSession -----------------------------
(***************************************************************************)
(* A read session of Vector::BLF::File (src/Vector/BLF/File.cpp):          *)
(*                                                                         *)
(*   App  --open/read*/close-->  ObjectQueue <--U-- UncompressedFile <--C-- fstream *)
(*                                                                         *)
(* Three threads: the application ("A"), uncompressedFileReadThread ("U")  *)
(* and compressedFileReadThread ("C").  One action = one step of the       *)
(* controlled scheduler (harness/vsync.h): from one scheduling point to    *)
(* the next.  Scheduling points are: thread start, every acquisition of    *)
(* the UncompressedFile or ObjectQueue mutex, every access to the atomic   *)
(* flags/counter, join, and (when cfg.post) the point after a notifying    *)
(* ObjectQueue critical section.  The fstream (CompressedFile) is private  *)
(* to C apart from close(); its operations are not scheduling points.      *)
(*                                                                         *)
(* Condition variables are explicit wait sets (blk): a thread whose wait   *)
(* predicate is false parks on "ufp"/"ufg"/"oqp"/"oqg" (tellpChanged /     *)
(* tellgChanged of the two monitors) until a critical section notifies it. *)
(*                                                                         *)
(* A configuration (cfg) describes one session:                            *)
(*   B, Q       buffer size of the stream, capacity of the queue           *)
(*   post       extra scheduling point after notifying queue sections      *)
(*   nreads     read() calls before close(); -1 = read until nullptr       *)
(*   conts      containers in the file: sequence of [usize, ok]            *)
(*              (ok = FALSE: uncompress() throws the library's exception)  *)
(*   tail       what follows the last container: "eof" | "junk" | "foreign"*)
(*   cls        class of every byte of the uncompressed stream:            *)
(*              "L","O","B","J" or "x" (the resynchronisation logic of     *)
(*              ObjectHeaderBase::read distinguishes nothing else)         *)
(*   objs       sequence of object descriptors, one per signature in the   *)
(*              stream: [pos, known, osz, calc, ops, id, t115]             *)
(*                osz   declared objectSize                                *)
(*                calc  calculateObjectSize() of a fresh object of the type*)
(*                      (informational since the fix of F19)               *)
(*                ops   the codec's calls on the stream, <<kind, n>>:      *)
(*                      "r" read(n), "s" seekg(n), "e" eof()               *)
(*   expected   ids a complete read delivers, in order                     *)
(*   touch      "before": the object's type is inspected before the        *)
(*              hand-over to the queue (the code since the fix of F5);     *)
(*              "after": the defective order, kept so that TLC can show    *)
(*              the violation of NoStaleAccess                             *)
(***************************************************************************)
EXTENDS UFOps, OQOps, SequencesExt, FiniteSets, TLC, Json

CONSTANTS Configs

VARIABLES cfg,
          uf, oq,               \* the two monitors (records of UFOps / OQOps)
          uRun, cRun,           \* m_uncompressedFileThreadRunning, m_compressedFileThreadRunning
          cfOpen, cfBad,        \* fstream: is_open, !good()
          ci,                   \* containers consumed from the fstream so far
          cur,                  \* usize of the container C is about to hand over
          ctmp, utmp,           \* locals: C's tellp() result, U's tellp() result
          objCount, uncSize,    \* currentObjectCount, currentUncompressedFileSize
          pc, blk,              \* per thread: label / condition variable parked on ("" = none)
          wk,                   \* threads that were notified while parked and have not yet re-evaluated
                                \* their predicate (they are inside condition_variable::wait)
          tmp4,                 \* U: the 4 bytes of ObjectHeaderBase::read's tmp, as classes
          d,                    \* U: index of the descriptor being processed (0 = none)
          opi,                  \* U: next codec operation
          fix,                  \* U: seek-back after the codec: what was read beyond the object's declared end
          ustart,               \* U: tellg() at the object's begin
          nread, delivered,     \* App: read() calls done, results in order (0 = nullptr)
          aret,                 \* App: result of a read() that has not returned yet (cfg.post), else -1
          freed,                \* ghost: ids the application has deleted
          stale,                \* ghost: U touched an object after the application freed it
          spur,                 \* spurious wake-ups injected so far (at most cfg.spur)
          act                   \* ghost: thread of the last step

vars == <<cfg, uf, oq, uRun, cRun, cfOpen, cfBad, ci, cur, ctmp, utmp, objCount, uncSize,
          pc, blk, wk, tmp4, d, opi, fix, ustart, nread, delivered, aret, freed, stale, spur, act>>
View == <<cfg, uf, oq, uRun, cRun, cfOpen, cfBad, ci, cur, ctmp, utmp, objCount, uncSize,
          pc, blk, wk, tmp4, d, opi, fix, ustart, nread, delivered, aret, freed, stale, spur>>

Threads == {"A", "U", "C"}
StatSize == 144           \* FileStatistics::statisticsSize
ContHdr == 32             \* LogContainer::internalHeaderSize()

Init == /\ cfg \in Configs
        /\ uf = UFSetBuf(UFInit, cfg.B)
        /\ oq = OQSetCap(OQInit, cfg.Q)
        /\ uRun = FALSE /\ cRun = FALSE
        /\ cfOpen = FALSE /\ cfBad = FALSE
        /\ ci = 0 /\ cur = 0 /\ ctmp = 0 /\ utmp = 0
        /\ objCount = 0 /\ uncSize = 0
        /\ pc = [t \in Threads |-> IF t = "A" THEN "start" ELSE "none"]
        /\ blk = [t \in Threads |-> ""] /\ wk = {}
        /\ tmp4 = <<"x", "x", "x", "x">>
        /\ d = 0 /\ opi = 0 /\ fix = 0 /\ ustart = 0
        /\ nread = 0 /\ delivered = <<>> /\ aret = -1
        /\ freed = {} /\ stale = FALSE
        /\ spur = 0
        /\ act = [op |-> "init", arg |-> cfg.name]

(* ------------------------------------------------------------------ *)
Ready(t, l) == pc[t] = l /\ blk[t] = ""
Goto(t, l) == pc' = [pc EXCEPT ![t] = l]
Step(t) == act' = [op |-> t, arg |-> 0] /\ UNCHANGED <<cfg, spur>>
(* the acting thread leaves a critical section having notified the condition variables cvs, and is
   afterwards parked on selfcv ("" = not parked) *)
Sync(self, cvs, selfcv) ==
  /\ blk' = [t \in Threads |-> IF t = self THEN selfcv ELSE IF blk[t] \in cvs THEN "" ELSE blk[t]]
  /\ wk' = (wk \ {self}) \cup {t \in Threads \ {self} : blk[t] \in cvs}
Block(t, cv) == Sync(t, {}, cv)
Quiet == UNCHANGED <<blk, wk, wk>>

UVars == <<tmp4, d, opi, fix, ustart, utmp>>
CVars == <<ci, cur, ctmp, cfBad>>
AVars == <<nread, delivered, aret, freed>>
Flags == <<uRun, cRun>>
Stats == <<objCount, uncSize>>

NObjs == Len(cfg.objs)
Desc(i) == cfg.objs[i]
(* index of the descriptor whose header starts at stream position x, 0 if none *)
DescAt(x) == LET S == {i \in 1..NObjs : Desc(i).pos = x} IN IF S = {} THEN 0 ELSE CHOOSE i \in S : TRUE
ClsAt(x) == IF x >= 0 /\ x < Len(cfg.cls) THEN cfg.cls[x + 1] ELSE "x"

(* ------------------------------------------------------------------ *)
(* Application thread                                                   *)
(* ------------------------------------------------------------------ *)
(* open(): fstream opened, statistics header read (currentUncompressedFileSize += statisticsSize) *)
A_Start == /\ Ready("A", "start") /\ Step("A") /\ Goto("A", "setU")
           /\ cfOpen' = TRUE /\ uncSize' = uncSize + StatSize
           /\ UNCHANGED <<uf, oq, Flags, CVars, objCount, blk, wk, UVars, AVars, stale>>
A_SetU == /\ Ready("A", "setU") /\ Step("A")
          /\ uRun' = TRUE /\ Goto("A", "setC")
          /\ UNCHANGED <<uf, oq, cRun, cfOpen, CVars, Stats, blk, wk, UVars, AVars, stale>>
AfterOpen == IF cfg.nreads = 0 THEN "clrC" ELSE "read"
A_SetC == /\ Ready("A", "setC") /\ Step("A")
          /\ cRun' = TRUE
          /\ pc' = [pc EXCEPT !["A"] = AfterOpen, !["U"] = "start", !["C"] = "start"]   \* both threads created
          /\ UNCHANGED <<uf, oq, uRun, cfOpen, CVars, Stats, blk, wk, UVars, AVars, stale>>
AfterRead(ret, n) == IF ret = 0 \/ n = cfg.nreads THEN "clrC" ELSE "read"
A_Read == /\ Ready("A", "read") /\ Step("A")
          /\ IF OQReadPred(oq)
               THEN LET ret == OQReadRet(oq) IN
                    /\ oq' = OQRead(oq)
                    /\ Sync("A", {"oqg"}, "")
                    /\ IF cfg.post
                         THEN /\ aret' = ret /\ Goto("A", "afterRead")
                              /\ UNCHANGED <<nread, delivered, freed>>
                         ELSE /\ delivered' = Append(delivered, ret)
                              /\ nread' = nread + 1
                              /\ Goto("A", AfterRead(ret, nread + 1))
                              /\ freed' = IF ret = 0 THEN freed ELSE freed \cup {ret}
                              /\ UNCHANGED aret
               ELSE /\ Block("A", "oqp")
                    /\ UNCHANGED <<oq, pc, AVars>>
          /\ UNCHANGED <<uf, Flags, cfOpen, CVars, Stats, UVars, stale>>
(* with cfg.post: read() returns, the application records and deletes the object in a step of its own *)
A_AfterRead == /\ Ready("A", "afterRead") /\ Step("A")
               /\ delivered' = Append(delivered, aret)
               /\ nread' = nread + 1
               /\ Goto("A", AfterRead(aret, nread + 1))
               /\ freed' = IF aret = 0 THEN freed ELSE freed \cup {aret}
               /\ aret' = -1
               /\ UNCHANGED <<uf, oq, Flags, cfOpen, CVars, Stats, blk, wk, UVars, stale>>
(* close(), read mode *)
A_ClrC == /\ Ready("A", "clrC") /\ Step("A")
          /\ cRun' = FALSE /\ cfOpen' = FALSE          \* flag store, then m_compressedFile.close()
          /\ Goto("A", "clrU")
          /\ UNCHANGED <<uf, oq, uRun, CVars, Stats, blk, wk, UVars, AVars, stale>>
A_ClrU == /\ Ready("A", "clrU") /\ Step("A")
          /\ uRun' = FALSE /\ Goto("A", "abortUF")
          /\ UNCHANGED <<uf, oq, cRun, cfOpen, CVars, Stats, blk, wk, UVars, AVars, stale>>
A_AbortUF == /\ Ready("A", "abortUF") /\ Step("A")
             /\ uf' = UFAbort(uf) /\ Sync("A", {"ufg", "ufp"}, "")
             /\ Goto("A", "abortOQ")
             /\ UNCHANGED <<oq, Flags, cfOpen, CVars, Stats, UVars, AVars, stale>>
A_AbortOQ == /\ Ready("A", "abortOQ") /\ Step("A")
             /\ oq' = OQAbort(oq) /\ Sync("A", {"oqg", "oqp"}, "")
             /\ Goto("A", IF cfg.post THEN "afterAbort" ELSE "joinC")
             /\ UNCHANGED <<uf, Flags, cfOpen, CVars, Stats, UVars, AVars, stale>>
A_AfterAbort == /\ Ready("A", "afterAbort") /\ Step("A") /\ Goto("A", "joinC")
                /\ UNCHANGED <<uf, oq, Flags, cfOpen, CVars, Stats, blk, wk, UVars, AVars, stale>>
A_JoinC == /\ Ready("A", "joinC") /\ pc["C"] = "done" /\ Step("A") /\ Goto("A", "joinU")
           /\ UNCHANGED <<uf, oq, Flags, cfOpen, CVars, Stats, blk, wk, UVars, AVars, stale>>
A_JoinU == /\ Ready("A", "joinU") /\ pc["U"] = "done" /\ Step("A") /\ Goto("A", "done")
           /\ UNCHANGED <<uf, oq, Flags, cfOpen, CVars, Stats, blk, wk, UVars, AVars, stale>>

ANext == A_Start \/ A_SetU \/ A_SetC \/ A_Read \/ A_AfterRead \/ A_ClrC \/ A_ClrU
         \/ A_AbortUF \/ A_AbortOQ \/ A_AfterAbort \/ A_JoinC \/ A_JoinU

(* ------------------------------------------------------------------ *)
(* uncompressedFileReadThread                                           *)
(* ------------------------------------------------------------------ *)
UKeep == UNCHANGED <<oq, Flags, cfOpen, CVars, Stats, AVars, stale>>    \* typical frame of a stream step

(* a blocking read(n) on the stream by U: either completes (then Cont) or parks on tellpChanged *)
UReadOr(n, Cont(_)) ==
  IF UFReadPred(uf, n)
    THEN /\ uf' = UFRead(uf, n)
         /\ Sync("U", {"ufg"}, "")
         /\ Cont(uf')
    ELSE /\ IF "U" \notin wk
              THEN uf' = UFDemand(uf, n) /\ Sync("U", {"ufg"}, "ufp")     \* first evaluation: publish demand
              ELSE uf' = uf /\ Sync("U", {}, "ufp")                       \* re-evaluation inside wait()
         /\ UNCHANGED <<pc, UVars>>

U_Start == /\ Ready("U", "start") /\ Step("U") /\ Goto("U", "load")
           /\ UNCHANGED <<uf, oq, Flags, cfOpen, CVars, Stats, blk, wk, UVars, AVars, stale>>
U_Load == /\ Ready("U", "load") /\ Step("U")
          /\ IF uRun THEN Goto("U", "scan") /\ tmp4' = <<"x", "x", "x", "x">>     \* fresh ohb, tmp = 0
                     ELSE Goto("U", "tellp") /\ UNCHANGED tmp4
          /\ UNCHANGED <<uf, oq, Flags, cfOpen, CVars, Stats, blk, wk, d, opi, fix, ustart, utmp, AVars, stale>>
(* ObjectHeaderBase::read — signature scan *)
Overlay(t4, g0, k) == [i \in 1..4 |-> IF i <= k THEN ClsAt(g0 + i - 1) ELSE t4[i]]
U_Scan == /\ Ready("U", "scan") /\ Step("U")
          /\ UReadOr(4, LAMBDA u2 :
                LET t4 == Overlay(tmp4, uf.g, u2.gc) IN
                /\ tmp4' = t4
                /\ Goto("U", IF t4 = <<"L", "O", "B", "J">> THEN "h1" ELSE "scaneof")
                /\ UNCHANGED <<d, opi, fix, ustart, utmp>>)
          /\ UKeep
ScanBack(t4) == IF <<t4[2], t4[3], t4[4]>> = <<"L", "O", "B">> THEN 3
                ELSE IF <<t4[3], t4[4]>> = <<"L", "O">> THEN 2
                ELSE IF t4[4] = "L" THEN 1 ELSE 0
U_ScanEof == /\ Ready("U", "scaneof") /\ Step("U")          \* is.eof()
             /\ Goto("U", IF UFEof(uf) THEN "clrexc"         \* throw Exception("End of File")
                          ELSE IF ScanBack(tmp4) > 0 THEN "scanback" ELSE "scan")
             /\ UNCHANGED <<uf, blk, wk, UVars>> /\ UKeep
U_ScanBack == /\ Ready("U", "scanback") /\ Step("U")
              /\ uf' = UFSeekg(uf, -ScanBack(tmp4)) /\ Sync("U", {"ufg"}, "")
              /\ Goto("U", "scan")
              /\ UNCHANGED UVars /\ UKeep
(* the four remaining header fields: headerSize(2) headerVersion(2) objectSize(4) objectType(4) *)
UHdr(l, n, nxt) == /\ Ready("U", l) /\ Step("U")
                   /\ UReadOr(n, LAMBDA u2 : Goto("U", nxt) /\ UNCHANGED UVars)
                   /\ UKeep
U_H1 == UHdr("h1", 2, "h2")
U_H2 == UHdr("h2", 2, "h3")
U_H3 == UHdr("h3", 4, "h4")
U_H4 == UHdr("h4", 4, "good1")
(* !good(): normal end of file, return.  objectSize below the base header size: the library's
   exception ends the thread (fix of F4).  Otherwise seek back to the object start. *)
U_Good1 == /\ Ready("U", "good1") /\ Step("U")
           /\ LET i == DescAt(uf.g - 16) IN
              Goto("U", IF ~UFGood(uf) THEN "goodchk"
                        ELSE IF i # 0 /\ Desc(i).osz < 16 THEN "clrexc"
                        ELSE "back16")
           /\ UNCHANGED <<uf, blk, wk, UVars>> /\ UKeep
U_Back16 == /\ Ready("U", "back16") /\ Step("U")
            /\ uf' = UFSeekg(uf, -16) /\ Sync("U", {"ufg"}, "")
            /\ LET i == DescAt(uf'.g) IN
                 /\ d' = i
                 /\ Goto("U", IF i = 0 \/ ~Desc(i).known THEN "skip" ELSE "tell1")
            /\ UNCHANGED <<tmp4, opi, fix, ustart, utmp>> /\ UKeep
(* objectBegin = tellg() *)
U_Tell1 == /\ Ready("U", "tell1") /\ Step("U")
           /\ ustart' = UFTellg(uf) /\ opi' = 1
           /\ Goto("U", IF Desc(d).ops = <<>> THEN "good2" ELSE "op")
           /\ UNCHANGED <<uf, blk, wk, tmp4, d, fix, utmp>> /\ UKeep
(* unknown object type: seekg(ohb.objectSize) from the object start, return *)
U_Skip == /\ Ready("U", "skip") /\ Step("U")
          /\ uf' = UFSeekg(uf, IF d = 0 THEN 0 ELSE Desc(d).osz) /\ Sync("U", {"ufg"}, "")
          /\ Goto("U", "goodchk")
          /\ UNCHANGED UVars /\ UKeep
(* obj->read(m_uncompressedFile): the codec's operations *)
NextOp == IF opi + 1 > Len(Desc(d).ops) THEN "good2" ELSE "op"
U_Op == /\ Ready("U", "op") /\ Step("U")
        /\ LET o == Desc(d).ops[opi] IN
           CASE o[1] = "r" -> UReadOr(o[2], LAMBDA u2 :
                                 /\ opi' = opi + 1 /\ Goto("U", NextOp) /\ UNCHANGED <<tmp4, d, fix, ustart, utmp>>)
             [] o[1] = "s" -> /\ uf' = UFSeekg(uf, o[2]) /\ Sync("U", {"ufg"}, "")
                              /\ opi' = opi + 1 /\ Goto("U", NextOp) /\ UNCHANGED <<tmp4, d, fix, ustart, utmp>>
             [] OTHER      -> /\ opi' = opi + 1 /\ Goto("U", NextOp)          \* observer call
                              /\ UNCHANGED <<uf, blk, wk, tmp4, d, fix, ustart, utmp>>
        /\ UKeep
U_Good2 == /\ Ready("U", "good2") /\ Step("U")
           /\ Goto("U", IF ~UFGood(uf) THEN "clrexc"          \* delete obj; throw "Read beyond end of file"
                        ELSE "tell2")
           /\ UNCHANGED <<uf, blk, wk, UVars>> /\ UKeep
(* readBeyond = tellg() - (objectBegin + ohb.objectSize); go back if positive (fix of F19) *)
U_Tell2 == /\ Ready("U", "tell2") /\ Step("U")
           /\ LET over == UFTellg(uf) - (ustart + Desc(d).osz) IN
                /\ fix' = IF over > 0 THEN -over ELSE 0
                /\ Goto("U", IF over > 0 THEN "fix" ELSE "push")
           /\ UNCHANGED <<uf, blk, wk, tmp4, d, opi, ustart, utmp>> /\ UKeep
U_Fix == /\ Ready("U", "fix") /\ Step("U")
         /\ uf' = UFSeekg(uf, fix) /\ Sync("U", {"ufg"}, "")
         /\ Goto("U", "push")
         /\ UNCHANGED UVars /\ UKeep
AfterPush == IF Desc(d).t115 THEN "drop" ELSE "count"
U_Push == /\ Ready("U", "push") /\ Step("U")
          /\ IF OQWritePred(oq)
               THEN /\ oq' = OQWrite(oq, Desc(d).id)
                    /\ Sync("U", {"oqp"}, "")
                    /\ IF cfg.post THEN Goto("U", "afterPush") /\ UNCHANGED stale
                       ELSE /\ Goto("U", AfterPush)
                            /\ stale' = (stale \/ (cfg.touch = "after" /\ Desc(d).id \in freed))
               ELSE /\ Block("U", "oqg")
                    /\ UNCHANGED <<oq, pc, stale>>
          /\ UNCHANGED <<uf, Flags, cfOpen, CVars, Stats, UVars, AVars>>
(* with cfg.post: whatever U does between the hand-over and its next scheduling point is a step of
   its own; with touch = "after" that includes reading obj->objectType *)
U_AfterPush == /\ Ready("U", "afterPush") /\ Step("U")
               /\ stale' = (stale \/ (cfg.touch = "after" /\ Desc(d).id \in freed))
               /\ Goto("U", AfterPush)
               /\ UNCHANGED <<uf, oq, Flags, cfOpen, CVars, Stats, blk, wk, UVars, AVars>>
U_Count == /\ Ready("U", "count") /\ Step("U")
           /\ objCount' = objCount + 1 /\ Goto("U", "drop")
           /\ UNCHANGED <<uf, oq, Flags, cfOpen, CVars, uncSize, blk, wk, UVars, AVars, stale>>
U_Drop == /\ Ready("U", "drop") /\ Step("U")
          /\ uf' = UFDrop(uf) /\ Goto("U", "goodchk")
          /\ UNCHANGED <<blk, wk, UVars>> /\ UKeep
U_GoodChk == /\ Ready("U", "goodchk") /\ Step("U")
             /\ Goto("U", IF UFGood(uf) THEN "load" ELSE "clrbad")
             /\ UNCHANGED <<uf, blk, wk, UVars>> /\ UKeep
U_ClrExc == /\ Ready("U", "clrexc") /\ Step("U")
            /\ uRun' = FALSE /\ Goto("U", "goodchk")
            /\ UNCHANGED <<uf, oq, cRun, cfOpen, CVars, Stats, blk, wk, UVars, AVars, stale>>
U_ClrBad == /\ Ready("U", "clrbad") /\ Step("U")
            /\ uRun' = FALSE /\ Goto("U", "load")
            /\ UNCHANGED <<uf, oq, cRun, cfOpen, CVars, Stats, blk, wk, UVars, AVars, stale>>
(* after the loop: m_readWriteQueue.setFileSize(m_readWriteQueue.tellp()) *)
U_Tellp == /\ Ready("U", "tellp") /\ Step("U")
           /\ utmp' = oq.p /\ Goto("U", "setend")
           /\ UNCHANGED <<uf, oq, Flags, cfOpen, CVars, Stats, blk, wk, tmp4, d, opi, fix, ustart, AVars, stale>>
U_SetEnd == /\ Ready("U", "setend") /\ Step("U")
            /\ oq' = OQSetEnd(oq, utmp) /\ Sync("U", {"oqp"}, "")
            /\ Goto("U", IF cfg.post THEN "afterEnd" ELSE "done")
            /\ UNCHANGED <<uf, Flags, cfOpen, CVars, Stats, UVars, AVars, stale>>
U_AfterEnd == /\ Ready("U", "afterEnd") /\ Step("U") /\ Goto("U", "done")
              /\ UNCHANGED <<uf, oq, Flags, cfOpen, CVars, Stats, blk, wk, UVars, AVars, stale>>

UNext == U_Start \/ U_Load \/ U_Scan \/ U_ScanEof \/ U_ScanBack \/ U_H1 \/ U_H2 \/ U_H3 \/ U_H4
         \/ U_Good1 \/ U_Back16 \/ U_Tell1 \/ U_Skip \/ U_Op \/ U_Good2 \/ U_Tell2 \/ U_Fix \/ U_Push \/ U_AfterPush
         \/ U_Count \/ U_Drop \/ U_GoodChk \/ U_ClrExc \/ U_ClrBad \/ U_Tellp \/ U_SetEnd \/ U_AfterEnd

(* ------------------------------------------------------------------ *)
(* compressedFileReadThread                                             *)
(* ------------------------------------------------------------------ *)
NConts == Len(cfg.conts)
C_Start == /\ Ready("C", "start") /\ Step("C") /\ Goto("C", "load")
           /\ UNCHANGED <<uf, oq, Flags, cfOpen, CVars, Stats, blk, wk, UVars, AVars, stale>>
(* while (running) { compressedFile2UncompressedFile(): parse one container from the fstream ... *)
C_Load == /\ Ready("C", "load") /\ Step("C")
          /\ IF ~cRun
               THEN Goto("C", "tellp") /\ UNCHANGED <<ci, cur, cfBad, uncSize>>
               ELSE IF cfOpen /\ ~cfBad /\ ci < NConts
                 THEN \* header + payload read completely; statistics; uncompress
                      /\ ci' = ci + 1
                      /\ uncSize' = uncSize + ContHdr + cfg.conts[ci + 1].usize
                      /\ cfBad' = cfBad
                      /\ IF cfg.conts[ci + 1].ok
                           THEN cur' = cfg.conts[ci + 1].usize /\ Goto("C", "put")
                           ELSE cur' = cur /\ Goto("C", "clrexc")            \* uncompress() throws
                 ELSE \* closed, or nothing (complete) left in the file
                      /\ UNCHANGED <<ci, cur, uncSize>>
                      /\ IF ~cfOpen \/ cfBad \/ cfg.tail = "eof"
                           THEN cfBad' = TRUE /\ Goto("C", "clrexc")          \* read fails: eof|fail, Exception
                           ELSE IF cfg.tail = "junk"
                             THEN cfBad' = cfBad /\ Goto("C", "clrexc")       \* "not a log container"
                             ELSE cfBad' = cfBad /\ Goto("C", "tellp")        \* foreign exception (bad_alloc): outer
                                                                             \* catch, then the end is declared (fix of F3)
          /\ UNCHANGED <<uf, oq, Flags, cfOpen, ctmp, objCount, blk, wk, UVars, AVars, stale>>
(* ... m_uncompressedFile.write(logContainer) } ; then the !good() check of the loop *)
C_Put == /\ Ready("C", "put") /\ Step("C")
         /\ IF UFWriteCPred(uf)
              THEN /\ uf' = UFWriteC(uf, cur)
                   /\ Sync("C", {"ufp"}, "")
                   /\ Goto("C", IF cfBad THEN "clrbad" ELSE "load")
              ELSE /\ Block("C", "ufg")
                   /\ UNCHANGED <<uf, pc>>
         /\ UNCHANGED <<oq, Flags, cfOpen, CVars, Stats, UVars, AVars, stale>>
C_ClrExc == /\ Ready("C", "clrexc") /\ Step("C")
            /\ cRun' = FALSE /\ Goto("C", IF cfBad THEN "clrbad" ELSE "load")
            /\ UNCHANGED <<uf, oq, uRun, cfOpen, CVars, Stats, blk, wk, UVars, AVars, stale>>
C_ClrBad == /\ Ready("C", "clrbad") /\ Step("C")
            /\ cRun' = FALSE /\ Goto("C", "load")
            /\ UNCHANGED <<uf, oq, uRun, cfOpen, CVars, Stats, blk, wk, UVars, AVars, stale>>
C_Tellp == /\ Ready("C", "tellp") /\ Step("C")
           /\ ctmp' = UFTellp(uf) /\ Goto("C", "setend")
           /\ UNCHANGED <<uf, oq, Flags, cfOpen, ci, cur, cfBad, Stats, blk, wk, UVars, AVars, stale>>
C_SetEnd == /\ Ready("C", "setend") /\ Step("C")
            /\ uf' = UFSetEnd(uf, ctmp) /\ Sync("C", {"ufp"}, "")
            /\ Goto("C", "done")
            /\ UNCHANGED <<oq, Flags, cfOpen, CVars, Stats, UVars, AVars, stale>>

CNext == C_Start \/ C_Load \/ C_Put \/ C_ClrExc \/ C_ClrBad \/ C_Tellp \/ C_SetEnd

(* a condition variable may wake a waiter without any notify; the waiter re-evaluates its predicate *)
Spurious == \E t \in Threads :
              /\ spur < cfg.spur /\ blk[t] # ""
              /\ blk' = [blk EXCEPT ![t] = ""] /\ wk' = wk \cup {t}
              /\ spur' = spur + 1
              /\ act' = [op |-> "spur", arg |-> t]
              /\ UNCHANGED <<cfg, uf, oq, uRun, cRun, cfOpen, cfBad, ci, cur, ctmp, utmp, objCount, uncSize, pc, tmp4, d, opi, fix, ustart, nread, delivered, aret, freed, stale>>

Next == ANext \/ UNext \/ CNext \/ Spurious
Spec == Init /\ [][Next]_vars
FairSpec == Spec /\ WF_vars(ANext) /\ WF_vars(UNext) /\ WF_vars(CNext)

(***************************************************************************)
(* Properties                                                              *)
(***************************************************************************)
AllDone == \A t \in Threads : pc[t] = "done"
NonNull(s) == SelectSeq(s, LAMBDA x : x # 0)
CloseStarted == pc["A"] \in {"clrU", "abortUF", "abortOQ", "afterAbort", "joinC", "joinU", "done"}
FullRead == cfg.nreads = -1

(* a thread can take a step *)
CanStep(t) == /\ pc[t] \notin {"done", "none"} /\ blk[t] = ""
              /\ (t = "A" /\ pc[t] = "joinC") => pc["C"] = "done"
              /\ (t = "A" /\ pc[t] = "joinU") => pc["U"] = "done"
(* C06: no state in which somebody still has work to do but nobody can move *)
DeadlockFree == (\A t \in Threads : ~CanStep(t)) => AllDone
(* C06: every session ends, under weak fairness of each thread *)
Termination == <>AllDone

(* C07: objects are delivered in file order, exactly once; nullptr only after the last one *)
DeliveredIsPrefix == IsPrefix(NonNull(delivered), cfg.expected)
NullIsLast == \A i \in 1..Len(delivered) : delivered[i] = 0 => i = Len(delivered)
EofOnlyAfterLast == (delivered # <<>> /\ Last(delivered) = 0 /\ ~oq.abort)
                       => NonNull(delivered) = cfg.expected
DoneDeliveredAll == (AllDone /\ FullRead) => NonNull(delivered) = cfg.expected
(* queue + delivered together are always a prefix: nothing is reordered or duplicated inside the library *)
InFlight == IF aret > 0 THEN <<aret>> ELSE <<>>
PipelineOrder == IsPrefix(NonNull(delivered) \o InFlight \o oq.q, cfg.expected)

(* C10: a stream with n signatures delivers at most n objects (then nullptr): no object is delivered twice *)
FiniteDelivery == Len(delivered) <= NObjs + 1
(* state constraint that keeps the graph finite even when FiniteDelivery is violated *)
BoundDelivery == Len(delivered) <= NObjs + 2 /\ Len(oq.q) <= cfg.Q + 2

(* C05: the reader's running counters equal the header statistics of a complete file *)
SumUsize == LET RECURSIVE S(_) S(i) == IF i = 0 THEN 0 ELSE ContHdr + cfg.conts[i].usize + S(i - 1) IN S(NConts)
N115 == Cardinality({i \in 1..NObjs : Desc(i).t115 /\ Desc(i).id \in {cfg.expected[j] : j \in 1..Len(cfg.expected)}})
StatsExact == (AllDone /\ FullRead /\ cfg.tail = "eof")
                 => /\ uncSize = StatSize + SumUsize
                    /\ objCount = Len(cfg.expected) - N115

(* C11: the library never touches an object after handing it to the application *)
NoStaleAccess == ~stale
(* C13: at the end every object is accounted for exactly once: freed by the application or still queued *)
Accounted == AllDone => /\ freed \cap {oq.q[i] : i \in 1..Len(oq.q)} = {}
                        /\ \A i \in 1..Len(oq.q) : \A j \in 1..Len(oq.q) : oq.q[i] = oq.q[j] => i = j

(* C12: bytes held in containers and objects queued stay within a bound that does not depend on the
   number of containers: buffer + one container (back-pressure is evaluated before appending) +
   whatever the reader still needs of the containers that overlap its current object *)
MaxU == LET RECURSIVE M(_) M(i) == IF i = 0 THEN 0 ELSE LET r == M(i - 1) IN
                                   IF cfg.conts[i].usize > r THEN cfg.conts[i].usize ELSE r IN M(NConts)
QueueBounded == ~oq.abort => Len(oq.q) <= cfg.Q
HeldBounded == UFHeld(uf) <= cfg.held

(***************************************************************************)
(* Refinement: what the application sees is a behaviour of the sequential  *)
(* contract FileContract.tla (reading part)                                *)
(***************************************************************************)
FC == INSTANCE FileContract WITH file <- cfg.expected, out <- delivered, closing <- CloseStarted,
                                 sizes <- <<>>, acc <- 0, flushed <- 0, closed <- FALSE
RefinesContract == FC!ReadSpec

(***************************************************************************)
(* M1 edge log                                                             *)
(***************************************************************************)
St(t) == IF pc[t] = "none" THEN "none"
         ELSE IF pc[t] = "done" THEN "done"
         ELSE IF blk[t] # "" THEN blk[t]
         ELSE IF t = "A" /\ pc[t] = "joinC" /\ pc["C"] # "done" THEN "join"
         ELSE IF t = "A" /\ pc[t] = "joinU" /\ pc["U"] # "done" THEN "join"
         ELSE "run"
Proj == [uf |-> [abort |-> uf.abort, g |-> uf.g, p |-> uf.p, gc |-> uf.gc, end |-> uf.end,
                 good |-> UFGood(uf), dem |-> uf.dem,
                 data |-> [i \in 1..Len(uf.data) |-> <<uf.data[i].pos, uf.data[i].size>>]],
         oq |-> [abort |-> oq.abort, g |-> oq.g, p |-> oq.p, end |-> oq.end, good |-> OQGood(oq),
                 q |-> oq.q],
         uRun |-> uRun, cRun |-> cRun, cfOpen |-> cfOpen,
         objCount |-> objCount, uncSize |-> uncSize,
         delivered |-> delivered,
         stA |-> St("A"), stU |-> St("U"), stC |-> St("C")]
EdgeLog == PrintT(ToJson([s |-> View, a |-> act', t |-> View', pt |-> Proj']))
InitLog == TLCGet("level") = 1 => PrintT(ToJson([init |-> View, a |-> act, pt |-> Proj]))
=============================================================================
