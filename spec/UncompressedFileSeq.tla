------------------------- MODULE UncompressedFileSeq -------------------------
(***************************************************************************)
(* Single-threaded histories of UncompressedFile: every operation whose    *)
(* wait predicate holds may happen next.  Bytes are identified by their    *)
(* absolute stream position (the put position only moves forward, so the   *)
(* byte at position x is always the (x+1)-th byte written); the reference   *)
(* byte queue is therefore "position x holds identity x+1 once written".   *)
(***************************************************************************)
EXTENDS UFOps, TLC, Json

CONSTANTS Ops,          \* subset of operation names explored by this configuration
          Ends,         \* n of setFileSize(n)
          MaxCont,      \* write(container) only while fewer containers are held (bounds empty containers)
          MaxPos,       \* positions 0..MaxPos (bound on bytes written and on seeks)
          WriteSizes,   \* n of write(s, n)
          ContSizes,    \* m of write(container of m bytes)
          ReadSizes,    \* n of read(s, n)
          Seeks,        \* off of seekg(off, cur)
          Cs,           \* c of setDefaultLogContainerSize(c)
          Bufs          \* b of setBufferSize(b)

VARIABLES uf,
          lo,           \* reference model: bytes at positions below lo were dropped (their
                        \* containers are gone; a later dummy container there holds zeros)
          ret,          \* identities returned by this step if it is a read, else <<>>
                        \* (0 = a byte never written)
          act           \* ghost: last operation

vars == <<uf, lo, ret, act>>
View == <<uf, lo, ret>>

Ident(x, p) == IF x >= lo /\ x < p THEN x + 1 ELSE 0
Range(a, b, p) == [i \in 1..(b - a) |-> Ident(a + i - 1, p)]
Max(a, b) == IF a > b THEN a ELSE b

Init == /\ \E c \in Cs : uf = UFSetC(UFInit, c)
        /\ ret = <<>> /\ lo = 0
        /\ act = [op |-> "init", arg |-> uf.C]

Write == "write" \in Ops /\ \E n \in WriteSizes :
           /\ uf.p + n <= MaxPos
           /\ UFWritePred(uf)
           /\ uf' = UFWrite(uf, n)
           /\ act' = [op |-> "write", arg |-> n]
           /\ ret' = <<>> /\ UNCHANGED lo

WriteC == "writeC" \in Ops /\ \E m \in ContSizes :
            /\ uf.p + m <= MaxPos
            /\ Len(uf.data) < MaxCont
            /\ UFWriteCPred(uf)
            /\ uf' = UFWriteC(uf, m)
            /\ act' = [op |-> "writeC", arg |-> m]
            /\ ret' = <<>> /\ UNCHANGED lo

Read == "read" \in Ops /\ \E n \in ReadSizes :
          /\ UFReadPred(uf, n)
          /\ uf' = UFRead(uf, n)
          /\ ret' = Range(uf.g, uf'.g, uf.p)
          /\ act' = [op |-> "read", arg |-> n]
          /\ UNCHANGED lo

Seekg == "seekg" \in Ops /\ \E k \in Seeks :
           /\ uf.g + k >= 0 /\ uf.g + k <= MaxPos
           /\ uf' = UFSeekg(uf, k)
           /\ act' = [op |-> "seekg", arg |-> k]
           /\ ret' = <<>> /\ UNCHANGED lo

NextLC == /\ "nextLogContainer" \in Ops
          /\ uf' = UFNextLogContainer(uf)
          /\ act' = [op |-> "nextLogContainer", arg |-> 0]
          /\ ret' = <<>> /\ UNCHANGED lo
Drop == /\ "dropOldData" \in Ops
        /\ uf' = UFDrop(uf)
        /\ act' = [op |-> "dropOldData", arg |-> 0]
        /\ ret' = <<>>
        /\ lo' = IF uf'.data # uf.data
                   THEN LET k == Len(uf.data) - Len(uf'.data) IN Max(lo, uf.data[k].pos + uf.data[k].size)
                   ELSE lo
SetEnd == "setFileSize" \in Ops /\ \E n \in Ends :
            /\ uf' = UFSetEnd(uf, n)
            /\ act' = [op |-> "setFileSize", arg |-> n]
            /\ ret' = <<>> /\ UNCHANGED lo
SetC == "setDefaultLogContainerSize" \in Ops /\ \E c \in Cs :
          /\ c # uf.C
          /\ uf' = UFSetC(uf, c)
          /\ act' = [op |-> "setDefaultLogContainerSize", arg |-> c]
          /\ ret' = <<>> /\ UNCHANGED lo
SetBuf == "setBufferSize" \in Ops /\ \E b \in Bufs :
            /\ b # uf.buf
            /\ uf' = UFSetBuf(uf, b)
            /\ act' = [op |-> "setBufferSize", arg |-> b]
            /\ ret' = <<>> /\ UNCHANGED lo
Abort == /\ "abort" \in Ops /\ ~uf.abort
         /\ uf' = UFAbort(uf)
         /\ act' = [op |-> "abort", arg |-> 0]
         /\ ret' = <<>> /\ UNCHANGED lo

Next == Write \/ WriteC \/ Read \/ Seekg \/ NextLC \/ Drop \/ SetEnd \/ SetC \/ SetBuf \/ Abort
Spec == Init /\ [][Next]_vars

(***************************************************************************)
(* Properties (C15)                                                        *)
(***************************************************************************)
Last(s) == s[Len(s)]
(* containers tile the stream: chained, no overlap, the put position inside/at the end of the last one *)
Geometry == /\ Chained(uf.data) /\ NoOverlap(uf.data)
            /\ uf.data # <<>> => /\ uf.p <= Last(uf.data).pos + Last(uf.data).size
(* every written byte from the front container's start up to p is held exactly once *)
Covered == uf.data # <<>> =>
             \A x \in uf.data[1].pos .. (uf.p - 1) : Containing(uf.data, x) # 0
(* dropping never discards a byte that has not been read (or skipped) yet *)
DropOnlyConsumed ==
  [][ act'.op = "dropOldData" /\ uf'.data # uf.data
        => LET k == Len(uf.data) - Len(uf'.data) IN
           /\ k > 0 /\ uf'.data = SubSeq(uf.data, k + 1, Len(uf.data))
           /\ \A i \in 1..k : /\ uf.data[i].pos + uf.data[i].size <= uf.g
                               /\ uf.data[i].pos + uf.data[i].size <= uf.p ]_vars
(* read counts and positions *)
ReadCounts ==
  [][ act'.op = "read" => /\ uf'.gc = uf'.g - uf.g
                          /\ uf'.gc >= 0
                          /\ (act'.arg >= 0 => uf'.gc <= act'.arg)
                          /\ Len(ret') = uf'.gc ]_vars
(* iostream-like flags: eof|fail when the request crosses the declared end, and from then on; a good,
   un-aborted read inside held data is complete *)
Flags ==
  [][ act'.op = "read" =>
        /\ (uf'.rd = "eof") <=> (act'.arg + uf.g > uf.end \/ uf.rd = "eof")
        /\ (uf'.rd = "good" /\ ~uf.abort /\ uf.data # <<>> /\ uf.g >= uf.data[1].pos)
              => uf'.gc = act'.arg ]_vars
(* only read and seek move the get position; only writes move the put position forward *)
Positions ==
  [][ /\ (uf'.g # uf.g => act'.op \in {"read", "seekg"})
      /\ (uf'.p # uf.p => act'.op \in {"write", "writeC"} /\ uf'.p = uf.p + act'.arg) ]_vars
(* the declared end follows the put position on byte writes *)
EndFollowsWrite == [][ act'.op = "write" => uf'.end >= uf'.p ]_vars

(***************************************************************************)
(* M1 edge log                                                             *)
(***************************************************************************)
Proj == [abort |-> uf.abort,
         data |-> [i \in 1..Len(uf.data) |-> <<uf.data[i].pos, uf.data[i].size>>],
         g |-> uf.g, p |-> uf.p, gc |-> uf.gc, end |-> uf.end, buf |-> uf.buf, C |-> uf.C,
         good |-> UFGood(uf), eof |-> UFEof(uf), tellg |-> UFTellg(uf), tellp |-> UFTellp(uf),
         dem |-> uf.dem, ret |-> ret, lo |-> lo]
\* Proj is injective on View here, so it doubles as the state identity
EdgeLog == PrintT(ToJson([s |-> Proj, a |-> act', t |-> Proj']))
InitLog == TLCGet("level") = 1 => PrintT(ToJson([init |-> Proj, a |-> act]))
=============================================================================
