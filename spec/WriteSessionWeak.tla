--------------------------- MODULE WriteSessionWeak ---------------------------
(***************************************************************************)
(* Weak trace validation: recorded executions of a real write session must  *)
(* be behaviours of WriteSession UP TO INVISIBLE STEPS.  Only changes of the *)
(* projection are recorded; between two recorded projections the spec may  *)
(* take any number of steps that leave the projection unchanged.  This is   *)
(* the check that is robust against a changed synchronisation structure    *)
(* (more or fewer critical sections / atomic accesses) as long as what the *)
(* threads do to the shared state, and when they block, is unchanged.      *)
(* All invariants of WriteSession are evaluated on the spec states reached. *)
(*                                                                         *)
(* Traces == one record per execution: [scen, steps]; steps[1] is the      *)
(* initial projection.                                                     *)
(***************************************************************************)
EXTENDS WriteSession, IOUtils

Traces == ndJsonDeserialize(IOEnv.TRACE)

VARIABLES tr,      \* which recorded execution this behaviour follows
          l        \* index of the last matched projection
wvars == <<vars, tr, l>>

WInit == /\ Init
         /\ tr \in 1..Len(Traces)
         /\ cfg.name = Traces[tr].scen
         /\ l = 1
         /\ Proj = Traces[tr].steps[1]

WHidden == /\ Next /\ Proj' = Proj /\ UNCHANGED <<tr, l>>
WObserve == /\ l < Len(Traces[tr].steps)
            /\ Next
            /\ Proj' # Proj
            /\ Proj' = Traces[tr].steps[l + 1]
            /\ l' = l + 1 /\ UNCHANGED tr
WSpec == WInit /\ [][WHidden \/ WObserve]_wvars

(* printed once per execution whose last projection is matched *)
Accepted == (l = Len(Traces[tr].steps)) => PrintT(<<"ACCEPTED", tr>>)
=============================================================================
