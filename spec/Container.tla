------------------------------ MODULE Container ------------------------------
(***************************************************************************)
(* The container format of a finished file (C04) and its statistics header *)
(* (C05), as a function of what was written and how File was configured.   *)
(* Compression is uninterpreted: a stored payload only has to inflate to   *)
(* exactly the declared uncompressed size (checked by the independent      *)
(* decoder tools/blfparse.py, which produces the records validated here).  *)
(*                                                                         *)
(* A record r (one line of the ndjson trace) describes one file:           *)
(*   kind "written": C, level, rp, nobj, n115, total, truthSha, want       *)
(*         (caller-supplied header fields), parse (decoder projection),    *)
(*         reader (counters of a File that read the whole file back)       *)
(*   kind "ref":     parse + reader of a Vector-produced reference log     *)
(***************************************************************************)
EXTENDS Integers, Sequences, SequencesExt, TLC, Json, IOUtils

CONSTANT Which        \* "C04": container format; "C05": statistics

Records == ndJsonDeserialize(IOEnv.TRACE)

VARIABLE i
vars == <<i>>

StatSize == 144
ContHdr == 32

(* full containers, then the remainder (possibly empty) *)
Chop(t, c) == [k \in 1..(t \div c) |-> c] \o <<t % c>>
ExpectedUsizes(r) == Chop(r.total, r.C) \o (IF r.rp THEN <<0>> ELSE <<>>)

(* zlib's FLEVEL for compress2(level) *)
LevelClass(l) == IF l < 2 THEN 0 ELSE IF l < 6 THEN 1 ELSE IF l = 6 THEN 2 ELSE 3
Method(l) == IF l = 0 THEN 0 ELSE 2

SumU(cs, k) == FoldLeft(LAMBDA acc, c : acc + ContHdr + c.usize, 0, SubSeq(cs, 1, k))

(* structure every BLF consumer relies on *)
WellFormed(p) ==
  /\ p.problems = <<>>
  /\ \A k \in 1..Len(p.containers) :
       LET c == p.containers[k] IN
       /\ c.hdrOk /\ c.inflateOk /\ c.padOk
       /\ c.objSize = ContHdr + c.stored
       /\ c.method \in {0, 2}
       /\ c.method = 0 => c.stored = c.usize
       /\ c.off = IF k = 1 THEN StatSize
                  ELSE p.containers[k - 1].off + p.containers[k - 1].objSize + (p.containers[k - 1].objSize % 4)

(* C04: the container sequence and the payload *)
FormatOK(r) ==
  LET p == r.parse
      exp == ExpectedUsizes(r)
      n == Len(p.containers)
  IN /\ WellFormed(p)
     /\ n = Len(exp)
     /\ \A k \in 1..n :
          /\ p.containers[k].usize = exp[k]
          /\ p.containers[k].usize <= r.C
          /\ p.containers[k].method = Method(r.level)
          /\ p.containers[k].method = 2 => p.containers[k].flevel = LevelClass(r.level)
          /\ p.containers[k].padLen = p.containers[k].objSize % 4
     \* the inflated payload is exactly the concatenation of the encodings, whatever C and level are
     /\ p.payloadLen = r.total /\ p.payloadSha = r.truthSha

(* C05: the statistics header of a written file, and the counters of a reader of that file *)
StatsOK(r) ==
  LET p == r.parse
      n == Len(p.containers)
  IN /\ p.problems = <<>> /\ n >= 1
     /\ p.header.fileSize = p.size
     /\ p.header.uncompressedFileSize = StatSize + SumU(p.containers, n)
     /\ p.header.objectCount = r.nobj - r.n115
     /\ p.header.statisticsSize = StatSize
     /\ (r.rp => p.header.restorePointsOffset = p.containers[n].off)
     /\ (~r.rp => p.header.restorePointsOffset = 0)
     /\ p.header.applicationId = r.want.applicationId
     /\ p.header.applicationMajor = r.want.applicationMajor
     /\ p.header.applicationMinor = r.want.applicationMinor
     /\ p.header.applicationBuild = r.want.applicationBuild      \* (both sides reduced to 31 bits:
     /\ p.header.apiNumber = r.want.apiNumber                    \*  TLC integers are 32-bit)
     /\ p.header.compressionLevel = r.want.compressionLevel
     /\ p.header.measurementStartTime[1] = r.want.startYear
     /\ p.header.measurementStartTime[8] = r.want.startMs
     /\ p.header.lastObjectTime[4] = r.want.lastDay
     \* a reader of the complete file ends with the header's values
     /\ r.reader.nread = r.nobj /\ r.reader.eofOk
     /\ r.reader.objCount = p.header.objectCount
     /\ r.reader.uncSize = p.header.uncompressedFileSize

RefOK(r) ==
  /\ r.parse.problems = <<>>
  /\ r.reader.eofOk
  /\ r.reader.objCount = r.parse.header.objectCount
  /\ r.reader.uncSize = r.parse.header.uncompressedFileSize

RecordOK(r) == CASE r.kind = "written" /\ Which = "C04" -> FormatOK(r)
                 [] r.kind = "written" /\ Which = "C05" -> StatsOK(r)
                 [] r.kind = "ref" -> RefOK(r)
                 [] OTHER -> FALSE

Init == i = 1
Next == i < Len(Records) /\ i' = i + 1
Spec == Init /\ [][Next]_vars

(* trace validation: every record is accepted; a violation names the record *)
Accepted == i <= Len(Records) => (RecordOK(Records[i]) \/ ~PrintT(<<"REJECTED", Records[i].name>>))
=============================================================================
