------------------------------- MODULE OQOps -------------------------------
(***************************************************************************)
(* ObjectQueue<T> (src/Vector/BLF/ObjectQueue.cpp) as a record plus one    *)
(* pure operator per method body.  The same operators are used by the      *)
(* sequential spec (ObjectQueueSeq), the concurrent spec (QueueConc) and   *)
(* the two session specs, so that there is one transcription of the code.  *)
(*                                                                         *)
(*   oq == [abort, q, g, p, end, cap, rd]                                  *)
(*     abort : m_abort                                                     *)
(*     q     : m_queue as a sequence of object identities                  *)
(*     g, p  : m_tellg, m_tellp (objects taken out / put in)               *)
(*     end   : m_fileSize   (Inf = numeric_limits<uint32_t>::max())        *)
(*     cap   : m_bufferSize (Inf = numeric_limits<uint32_t>::max())        *)
(*     rd    : m_rdstate, "good" or "eof" (eofbit|failbit are set together)*)
(***************************************************************************)
EXTENDS Integers, Sequences

Inf == 1000000000      \* stands for the "unlimited" defaults of the code

OQInit == [abort |-> FALSE, q |-> <<>>, g |-> 0, p |-> 0,
           end |-> Inf, cap |-> Inf, rd |-> "good"]

(* ObjectQueue::read — the wait predicate (line 31-36) *)
OQReadPred(oq) == oq.abort \/ oq.q # <<>> \/ oq.g >= oq.end

(* ObjectQueue::read — body after the wait (line 38-55); notifies tellgChanged *)
OQRead(oq) ==
  IF oq.q = <<>>
    THEN [oq EXCEPT !.rd = "eof"]
    ELSE [oq EXCEPT !.q = Tail(@), !.rd = "good", !.g = @ + 1]
OQReadRet(oq) == IF oq.q = <<>> THEN 0 ELSE Head(oq.q)    \* 0 = nullptr

(* ObjectQueue::write — wait predicate (line 73-77) *)
OQWritePred(oq) == oq.abort \/ Len(oq.q) < oq.cap

(* ObjectQueue::write — body (line 79-90); notifies tellpChanged *)
OQWrite(oq, o) ==
  LET p1 == oq.p + 1 IN
  [oq EXCEPT !.q = Append(@, o), !.p = p1,
             !.end = IF p1 > @ THEN p1 ELSE @]

(* setFileSize (notifies tellpChanged), setBufferSize, abort (notifies both) *)
OQSetEnd(oq, n) == [oq EXCEPT !.end = n]
OQSetCap(oq, c) == [oq EXCEPT !.cap = c]
OQAbort(oq)     == [oq EXCEPT !.abort = TRUE]

(* observers *)
OQGood(oq) == oq.rd = "good"
OQEof(oq)  == oq.rd = "eof"
=============================================================================
