// blfkit.h — helpers shared by the drivers: an in-memory AbstractFile, a recording
// wrapper, byte classes for the resynchronisation automaton, building BLF files
// from raw pieces (independently of File's writer).
#pragma once
#include <cstdint>
#include <cstring>
#include <fstream>
#include <memory>
#include <string>
#include <vector>

#include <Vector/BLF/AbstractFile.h>
#include <Vector/BLF/File.h>
#include <Vector/BLF/FileStatistics.h>
#include <Vector/BLF/LogContainer.h>
#include <Vector/BLF/UncompressedFile.h>

namespace kit {

using namespace Vector::BLF;

// iostream-like memory file (same conventions as UncompressedFile: short reads set eof|fail)
struct MemFile : public AbstractFile {
    std::vector<uint8_t> buf;
    std::streamoff g = 0;
    std::streamsize gc = 0;
    bool bad = false, eofb = false;
    std::streamsize gcount() const override { return gc; }
    void read(char * s, std::streamsize n) override {
        std::streamsize avail = (std::streamsize) buf.size() - g;
        if (avail < 0) avail = 0;
        std::streamsize k = n < avail ? n : avail;
        if (k > 0) memcpy(s, buf.data() + g, (size_t) k);
        if (k < 0) k = 0;
        g += k;
        gc = k;
        if (k < n) { bad = true; eofb = true; }
    }
    std::streampos tellg() override { return bad ? std::streampos(-1) : std::streampos(g); }
    void seekg(std::streamoff off, const std::ios_base::seekdir way = std::ios_base::cur) override {
        if (way == std::ios_base::beg) g = off;
        else if (way == std::ios_base::end) g = (std::streamoff) buf.size() + off;
        else g += off;
    }
    void write(const char * s, std::streamsize n) override {
        if (n > 0) buf.insert(buf.end(), (const uint8_t *) s, (const uint8_t *) s + n);
    }
    std::streampos tellp() override { return (std::streampos) buf.size(); }
    bool good() const override { return !bad; }
    bool eof() const override { return eofb; }
};

// forwards to another AbstractFile and logs every call: <kind, n>
struct Recorder : public AbstractFile {
    AbstractFile & in;
    std::vector<std::pair<char, long>> ops;     // 'r' read n, 's' seekg off, 'w' write n, 'e' eof(), 'g' good(), 't' tellg, 'p' tellp, 'c' gcount
    explicit Recorder(AbstractFile & f) : in(f) {}
    std::streamsize gcount() const override {
        const_cast<Recorder *>(this)->ops.push_back({'c', 0});
        return in.gcount();
    }
    void read(char * s, std::streamsize n) override { ops.push_back({'r', (long) n}); in.read(s, n); }
    std::streampos tellg() override { ops.push_back({'t', 0}); return in.tellg(); }
    void seekg(std::streamoff off, const std::ios_base::seekdir way = std::ios_base::cur) override {
        ops.push_back({'s', (long) off});
        in.seekg(off, way);
    }
    void write(const char * s, std::streamsize n) override { ops.push_back({'w', (long) n}); in.write(s, n); }
    std::streampos tellp() override { ops.push_back({'p', 0}); return in.tellp(); }
    bool good() const override {
        const_cast<Recorder *>(this)->ops.push_back({'g', 0});
        return in.good();
    }
    bool eof() const override {
        const_cast<Recorder *>(this)->ops.push_back({'e', 0});
        return in.eof();
    }
};

inline const char * byte_class(uint8_t b) {
    switch (b) {
    case 0x4c: return "L";
    case 0x4f: return "O";
    case 0x42: return "B";
    case 0x4a: return "J";
    default: return "x";
    }
}

inline uint32_t rd32(const std::vector<uint8_t> & b, size_t off) {
    uint32_t v = 0;
    if (off + 4 <= b.size()) memcpy(&v, b.data() + off, 4);
    return v;
}
inline uint16_t rd16(const std::vector<uint8_t> & b, size_t off) {
    uint16_t v = 0;
    if (off + 2 <= b.size()) memcpy(&v, b.data() + off, 2);
    return v;
}
inline void wr32(std::vector<uint8_t> & b, size_t off, uint32_t v) { memcpy(b.data() + off, &v, 4); }
inline void wr16(std::vector<uint8_t> & b, size_t off, uint16_t v) { memcpy(b.data() + off, &v, 2); }

// encode one object with the library's encoder into bytes (incl. its padding)
inline std::vector<uint8_t> encode(ObjectHeaderBase & o) {
    MemFile m;
    o.write(m);
    return m.buf;
}

// a raw "object" with a base header only: unknown type codes / hostile sizes
inline std::vector<uint8_t> raw_object(uint32_t type, uint32_t objectSize, uint32_t bytes, uint8_t fill = 0x11) {
    std::vector<uint8_t> b(bytes < 16 ? 16 : bytes, fill);
    memcpy(b.data(), "LOBJ", 4);
    wr16(b, 4, 16);
    wr16(b, 6, 1);
    wr32(b, 8, objectSize);
    wr32(b, 12, type);
    b.resize(bytes);
    return b;
}

// one LOG_CONTAINER object as it appears in the file (header, payload, padding)
inline std::vector<uint8_t> container_bytes(const uint8_t * p, size_t n, int method, int level) {
    LogContainer lc;
    lc.uncompressedFile.assign(p, p + n);
    lc.uncompressedFileSize = (uint32_t) n;
    lc.compress((uint16_t) method, level);
    MemFile m;
    lc.write(m);
    return m.buf;
}

inline std::vector<uint8_t> statistics_bytes(const FileStatistics & fs0) {
    FileStatistics fs = fs0;
    MemFile m;
    fs.write(m);
    return m.buf;
}

inline void write_file(const std::string & fn, const std::vector<uint8_t> & b) {
    std::ofstream f(fn, std::ios::binary | std::ios::trunc);
    f.write((const char *) b.data(), (std::streamsize) b.size());
}
inline std::vector<uint8_t> read_file(const std::string & fn) {
    std::ifstream f(fn, std::ios::binary);
    return std::vector<uint8_t>((std::istreambuf_iterator<char>(f)), std::istreambuf_iterator<char>());
}

inline std::string hex(const std::vector<uint8_t> & b) {
    static const char * d = "0123456789abcdef";
    std::string s;
    for (uint8_t c : b) { s += d[c >> 4]; s += d[c & 15]; }
    return s;
}
inline std::vector<uint8_t> unhex(const std::string & s) {
    std::vector<uint8_t> b;
    for (size_t i = 0; i + 1 < s.size(); i += 2) b.push_back((uint8_t) strtoul(s.substr(i, 2).c_str(), nullptr, 16));
    return b;
}

} // namespace kit
