// M1 edge replay of spec/UncompressedFileSeq.tla on the real UncompressedFile.
// Byte at absolute stream position x carries the value x+1 (the spec's identity).
#include <csignal>
#include <cstdlib>
#include <unistd.h>

#include <Vector/BLF/UncompressedFile.h>

#include "pathrun.h"

using namespace Vector::BLF;

static long g_path = -1, g_step = -1;
static std::string g_act;
static RunStats st;

static void on_alarm(int) {
    char buf[512];
    int n = snprintf(buf, sizeof buf,
                     "RESULT {\"driver\":\"uf_seq\",\"mismatches\":1,\"paths\":%ld,\"steps\":%ld,"
                     "\"first\":{\"path\":%ld,\"step\":%ld,\"act\":\"%s\",\"expected\":\"returns\",\"got\":\"blocked\"}}\n",
                     st.paths, st.steps, g_path, g_step, g_act.c_str());
    (void) !write(1, buf, n);
    _exit(0);
}

static const long INF = 1000000000;
static long inf(std::streamsize v) { return v == std::numeric_limits<std::streamsize>::max() ? INF : (long) v; }

static long g_lo = 0;   // harness-side reference: end of the last container that was dropped
static std::string project(UncompressedFile & u, const std::vector<long> & ret) {
    JObj o;
    o.put("lo", g_lo);
    o.put("dem", (long) u.m_demand);
    o.putb("abort", u.m_abort);
    o.raw("data", jarr(u.m_data.begin(), u.m_data.end(), [](const std::shared_ptr<LogContainer> & c) {
        return "[" + jint((long) c->filePosition) + "," + jint((long) c->uncompressedFileSize) + "]";
    }));
    o.put("g", (long) u.m_tellg).put("p", (long) u.m_tellp);
    o.put("gc", (long) u.gcount());
    o.put("end", inf(u.fileSize())).put("buf", inf(u.m_bufferSize));
    o.put("C", (long) u.defaultLogContainerSize());
    o.putb("good", u.good()).putb("eof", u.eof());
    o.put("tellg", (long) u.tellg()).put("tellp", (long) u.tellp());
    o.raw("ret", jarr(ret.begin(), ret.end(), [](long v) { return jint(v); }));
    return o.str();
}

int main(int argc, char ** argv) {
    if (argc < 2) return 2;
    signal(SIGALRM, on_alarm);
    std::vector<PPath> paths = load_paths(argv[1]);
    for (size_t pi = 0; pi < paths.size(); pi++) {
        const PPath & p = paths[pi];
        g_path = pi; g_step = -1; g_act = "init";
        alarm(20);
        UncompressedFile u;
        u.setDefaultLogContainerSize((uint32_t) atol(p.init.at(1).c_str()));
        long written = 0;
        g_lo = 0;
        std::vector<long> ret;
        st.paths++;
        std::string got = project(u, ret);
        if (got != p.initExpect) { st.mismatch(pi, -1, "init", p.initExpect, got); continue; }
        for (size_t si = 0; si < p.steps.size(); si++) {
            const PStep & s = p.steps[si];
            g_step = si; g_act = join_words(s.act);
            const std::string & op = s.act.at(0);
            long arg = atol(s.act.at(1).c_str());
            ret.clear();
            if (op == "write") {
                std::vector<char> b(arg + 1);
                for (long i = 0; i < arg; i++) b[i] = (char) (written + i + 1);
                u.write(b.data(), arg);
                written += arg;
            } else if (op == "writeC") {
                auto lc = std::make_shared<LogContainer>();
                lc->uncompressedFile.resize(arg);
                for (long i = 0; i < arg; i++) lc->uncompressedFile[i] = (uint8_t) (written + i + 1);
                lc->uncompressedFileSize = (uint32_t) arg;
                u.write(lc);
                written += arg;
            } else if (op == "read") {
                std::vector<char> b(arg + 64, (char) 0xEE);
                u.read(b.data(), arg);
                long gc = (long) u.gcount();
                for (long i = 0; i < gc && i < (long) b.size(); i++) ret.push_back((unsigned char) b[i]);
            } else if (op == "seekg") {
                u.seekg(arg, std::ios_base::cur);
            } else if (op == "nextLogContainer") {
                u.nextLogContainer();
            } else if (op == "dropOldData") {
                std::vector<long> ends;
                for (auto & c : u.m_data) ends.push_back((long) c->filePosition + (long) c->uncompressedFileSize);
                u.dropOldData();
                size_t dropped = ends.size() - u.m_data.size();
                if (dropped > 0 && ends[dropped - 1] > g_lo) g_lo = ends[dropped - 1];
            } else if (op == "setFileSize") {
                u.setFileSize(arg);
            } else if (op == "setDefaultLogContainerSize") {
                u.setDefaultLogContainerSize((uint32_t) arg);
            } else if (op == "setBufferSize") {
                u.setBufferSize(arg == INF ? std::numeric_limits<std::streamsize>::max() : arg);
            } else if (op == "abort") {
                u.abort();
            } else {
                fprintf(stderr, "unknown op %s\n", op.c_str());
                return 2;
            }
            st.steps++;
            got = project(u, ret);
            if (got != s.expect) { st.mismatch(pi, si, g_act, s.expect, got); break; }
        }
    }
    alarm(0);
    st.print("uf_seq");
    return 0;
}
