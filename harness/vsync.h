// vsync.h — scheduler-aware replacements for std::mutex, std::condition_variable,
// std::thread and std::atomic.  Force-included (-include vsync.h) in front of every
// translation unit of the library and of the drivers in the "sched"/"asan" build
// variants; the library sources are not modified.
//
// Real OS threads are used, but exactly one *scheduled* thread runs at a time
// (baton passing).  A scheduled thread parks — and control returns to the harness
// controller — at these scheduling points:
//     before lock() of a tracked mutex                     (K_LOCK)
//     in condition_variable::wait when the predicate is false (K_CVWAIT, blocked)
//     before every atomic load/store/RMW                   (K_ATOMIC)
//     before thread::join()                                (K_JOIN, blocked until the target finished)
//     at thread start                                      (K_START)
//     after unlock() of a mutex flagged for it, when the critical section
//     issued a notify                                      (K_POSTUNLOCK)
//     vsched::app_point()                                  (K_APP, used by drivers)
// and when its thread function returns (FINISHED).  One *step* of a thread is the
// code from one scheduling point to the next.  notify_all is not a scheduling
// point: it makes the waiters of that condition variable runnable as part of the
// enclosing step.
#pragma once
#include <bits/stdc++.h>

namespace vsched {

enum Kind { K_START = 0, K_LOCK, K_CVWAIT, K_WAKE, K_ATOMIC, K_JOIN, K_POSTUNLOCK, K_APP, K_FINISHED, K_MUTEXWAIT };
enum State { S_RUNNABLE = 0, S_BLOCKED_CV, S_BLOCKED_JOIN, S_BLOCKED_MUTEX, S_FINISHED };

struct ThreadRec;

struct Info {
    int id;
    State state;
    Kind kind;            // pending operation at the point where the thread is parked
    const void * obj;     // mutex / condition variable / atomic concerned, or nullptr
    int joinTarget;       // thread id being joined (K_JOIN), else -1
    long steps;           // steps executed so far
};

// ---- controller API (called by the harness, never from a scheduled thread) ----
void reset();                                         // forget all (finished or abandoned) threads
int spawn(std::function<void()> fn);                  // new scheduled root thread, parked at K_START
int nthreads();
Info info(int tid);
bool runnable(int tid);
bool all_finished();
bool any_runnable();
void step(int tid);                                   // run tid from its point to its next point
void set_untracked(const void * mutex);               // lock() of this mutex is not a scheduling point
void set_post_unlock(const void * mutex);             // K_POSTUNLOCK points after notifying sections
long total_steps();
void spurious_wake(int tid);                          // a thread blocked on a condition variable becomes runnable

// ---- called from scheduled threads ----
void app_point();                                     // explicit scheduling point in driver code
int self_id();                                        // -1 when not a scheduled thread

// internal interface used by the types below
void yield_point(Kind k, const void * obj);
bool block_on_cv(const void * cv, bool timed = false); // returns when woken and stepped: true = by a notify,
                                                      // false = spurious wake-up / time-out of a timed wait
void block_on_mutex(const void * m);
void notify_cv(const void * cv, bool all);
bool is_untracked(const void * m);
bool wants_post_unlock(const void * m);
void mutex_released(const void * m);
int thread_create(std::function<void()> fn);
void thread_join(int tid);
bool note_notify();                                   // marks "this section notified"; returns previous
bool take_notify_flag();

} // namespace vsched

namespace std {

class verif_mutex {
  public:
    verif_mutex() = default;
    verif_mutex(const verif_mutex &) = delete;
    verif_mutex & operator=(const verif_mutex &) = delete;
    void lock() {
        if (vsched::self_id() >= 0 && !vsched::is_untracked(this))
            vsched::yield_point(vsched::K_LOCK, this);
        acquire();
    }
    bool try_lock() {
        if (owner != -2) return false;
        owner = vsched::self_id();
        return true;
    }
    void unlock() {
        owner = -2;
        vsched::mutex_released(this);
        if (vsched::self_id() >= 0) {
            bool notified = vsched::take_notify_flag();
            if (notified && vsched::wants_post_unlock(this))
                vsched::yield_point(vsched::K_POSTUNLOCK, this);
        }
    }
    // used by verif_condvar: acquire/release without scheduling points
    void acquire() {
        while (owner != -2 && vsched::self_id() >= 0)
            vsched::block_on_mutex(this);
        owner = vsched::self_id();
    }
    void release() {
        owner = -2;
        vsched::mutex_released(this);
    }
    int owner = -2;   // -2 free, -1 held by an unscheduled thread, >=0 scheduled thread id
};

class verif_condvar {
  public:
    verif_condvar() = default;
    verif_condvar(const verif_condvar &) = delete;
    void notify_all() { vsched::note_notify(); vsched::notify_cv(this, true); }
    void notify_one() { vsched::note_notify(); vsched::notify_cv(this, false); }
    template <class Lock, class Pred>
    void wait(Lock & lk, Pred pred) {
        while (!pred()) {
            if (vsched::self_id() < 0) {
                fprintf(stderr, "vsync: unscheduled thread would block on a condition variable\n");
                abort();
            }
            lk.mutex()->release();
            vsched::block_on_cv(this);
            lk.mutex()->acquire();
        }
    }
    template <class Lock>
    void wait(Lock & lk) {
        lk.mutex()->release();
        vsched::block_on_cv(this);
        lk.mutex()->acquire();
    }
    // Timed waits: time is abstract under the scheduler - a timed wait may time out at any moment, so a thread
    // parked in one is always steppable (the step is its time-out) and a notify wakes it like any other waiter.
    template <class Lock, class Rep, class Period, class Pred>
    bool wait_for(Lock & lk, const std::chrono::duration<Rep, Period> &, Pred pred) {
        while (!pred()) {
            if (vsched::self_id() < 0) {
                fprintf(stderr, "vsync: unscheduled thread would block on a condition variable\n");
                abort();
            }
            lk.mutex()->release();
            bool notified = vsched::block_on_cv(this, true);
            lk.mutex()->acquire();
            if (!notified) return pred();
        }
        return true;
    }
    template <class Lock, class Rep, class Period>
    std::cv_status wait_for(Lock & lk, const std::chrono::duration<Rep, Period> &) {
        lk.mutex()->release();
        bool notified = vsched::block_on_cv(this, true);
        lk.mutex()->acquire();
        return notified ? std::cv_status::no_timeout : std::cv_status::timeout;
    }
    template <class Lock, class Clock, class Duration, class Pred>
    bool wait_until(Lock & lk, const std::chrono::time_point<Clock, Duration> &, Pred pred) {
        return wait_for(lk, std::chrono::seconds(0), pred);
    }
    template <class Lock, class Clock, class Duration>
    std::cv_status wait_until(Lock & lk, const std::chrono::time_point<Clock, Duration> &) {
        return wait_for(lk, std::chrono::seconds(0));
    }
};

class verif_thread {
  public:
    typedef int id;
    verif_thread() noexcept = default;
    template <class F, class... Args>
    explicit verif_thread(F && f, Args &&... args) {
        auto fn = std::bind(std::forward<F>(f), std::forward<Args>(args)...);
        tid = vsched::thread_create([fn]() mutable { fn(); });
    }
    verif_thread(verif_thread && o) noexcept : tid(o.tid) { o.tid = -1; }
    verif_thread & operator=(verif_thread && o) noexcept {
        if (joinable()) std::terminate();
        tid = o.tid;
        o.tid = -1;
        return *this;
    }
    verif_thread(const verif_thread &) = delete;
    ~verif_thread() {
        if (joinable()) std::terminate();
    }
    bool joinable() const noexcept { return tid >= 0; }
    void join() {
        if (!joinable()) throw std::system_error(std::make_error_code(std::errc::invalid_argument));
        vsched::thread_join(tid);
        tid = -1;
    }
    void detach() { tid = -1; }
    int get_id() const { return tid; }
    static unsigned hardware_concurrency() { return 1; }
  private:
    int tid = -1;
};

template <class T>
class verif_atomic {
  public:
    verif_atomic() noexcept : v() {}
    constexpr verif_atomic(T x) noexcept : v(x) {}
    verif_atomic(const verif_atomic &) = delete;
    T load(int = 0) const { pt(); return v; }
    void store(T x, int = 0) { pt(); v = x; }
    operator T() const { return load(); }
    T operator=(T x) { store(x); return x; }
    T exchange(T x, int = 0) { pt(); T o = v; v = x; return o; }
    T fetch_add(T d, int = 0) { pt(); T o = v; v = (T)(v + d); return o; }
    T fetch_sub(T d, int = 0) { pt(); T o = v; v = (T)(v - d); return o; }
    T operator++() { return (T)(fetch_add(1) + 1); }
    T operator++(int) { return fetch_add(1); }
    T operator--() { return (T)(fetch_sub(1) - 1); }
    T operator--(int) { return fetch_sub(1); }
    T operator+=(T d) { return (T)(fetch_add(d) + d); }
    T operator-=(T d) { return (T)(fetch_sub(d) - d); }
    T raw() const { return v; }      // harness only: no scheduling point
  private:
    void pt() const {
        if (vsched::self_id() >= 0) vsched::yield_point(vsched::K_ATOMIC, this);
    }
    T v;
};

} // namespace std

#ifndef VSYNC_IMPLEMENTATION
#define mutex verif_mutex
#define condition_variable verif_condvar
#define thread verif_thread
#define atomic verif_atomic
#endif
