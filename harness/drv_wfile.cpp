// Writes files through the real File over a configuration grid and reads them back (native threads).
//   drv_wfile gen <dir> <seed> <quick|thorough>     -> CASE {json} per file
//   drv_wfile readback <file>...                    -> READ {json} per file (reader counters at the end)
#include <random>
#include <chrono>
#include <thread>
#include <unistd.h>

#include "blfkit.h"
#include "pathrun.h"

using namespace Vector::BLF;

static ObjectHeaderBase * make_obj(std::mt19937_64 & rng, int kind, long id, long big) {
    switch (kind % 6) {
    case 0: {
        auto * m = new CanMessage;
        m->objectTimeStamp = (uint64_t) id; m->channel = (uint16_t) rng(); m->flags = (uint8_t) rng();
        m->dlc = (uint8_t) (rng() % 9); m->id = (uint32_t) rng();
        for (auto & d : m->data) d = (uint8_t) rng();
        return m;
    }
    case 1: {
        auto * m = new AppText;
        m->objectTimeStamp = (uint64_t) id; m->source = (uint32_t) rng();
        size_t n = (size_t) (rng() % (unsigned long) (big + 1));
        m->text.resize(n);
        for (auto & c : m->text) c = (char) (rng() % 255 + 1);       // incompressible
        return m;
    }
    case 2: {
        auto * m = new EthernetFrame;
        m->objectTimeStamp = (uint64_t) id; m->channel = 1; m->type = 0x800;
        m->payLoad.resize((size_t) (rng() % 1500));
        for (auto & c : m->payLoad) c = (uint8_t) (rng() % 4);        // compressible
        return m;
    }
    case 3: {
        auto * m = new RestorePointContainer;
        m->objectTimeStamp = (uint64_t) id;
        return m;
    }
    case 5: {
        // a log container handed to write() as an ordinary object (the factory knows the type): it is counted and
        // delivered like any other object
        auto * m = new LogContainer;
        m->uncompressedFile.resize((size_t) (rng() % 40));
        for (auto & c : m->uncompressedFile) c = (uint8_t) rng();
        m->uncompressedFileSize = (uint32_t) m->uncompressedFile.size();
        m->compress(0, 0);
        return m;
    }
    default: {
        auto * m = new CanFdMessage64;
        m->objectTimeStamp = (uint64_t) id; m->channel = 2; m->dlc = 15; m->validDataBytes = (uint8_t) (rng() % 65);
        m->data.resize(m->validDataBytes);
        for (auto & c : m->data) c = (uint8_t) rng();
        return m;
    }
    }
}

static std::string readback(const std::string & fn) {
    File f;
    JObj o;
    try {
        f.open(fn.c_str(), std::ios_base::in);
        long n = 0, n115 = 0;
        for (;;) {
            ObjectHeaderBase * ob = f.read();
            if (!ob) break;
            n++;
            if (ob->objectType == ObjectType::Unknown115) n115++;
            delete ob;
        }
        o.put("nread", n).put("n115read", n115).putb("eofOk", f.eof() && !f.good());
        f.close();
        // counters are final once the workers are joined
        o.put("objCount", (long) f.currentObjectCount).put("uncSize", (long) f.currentUncompressedFileSize);
        o.put("hdrCount", (long) f.fileStatistics.objectCount).put("hdrUnc", (long) f.fileStatistics.uncompressedFileSize);
    } catch (...) {
        o.putb("threw", true);
    }
    return o.str();
}

int main(int argc, char ** argv) {
    if (argc < 3) return 2;
    std::string mode = argv[1];
    if (mode == "readback") {
        for (int i = 2; i < argc; i++) {
            JObj o;
            o.puts("file", argv[i]).raw("reader", readback(argv[i]));
            printf("READ %s\n", o.str().c_str());
        }
        return 0;
    }
    if (mode != "gen" || argc < 5) return 2;
    std::string dir = argv[2];
    unsigned long seed = strtoul(argv[3], nullptr, 10);
    bool thorough = std::string(argv[4]) == "thorough";
    std::mt19937_64 rng(seed);
    std::vector<long> csizes = {1, 3, 17, 100, 4096, 0x1ffff, 0x20000, 0x20001, 0x100000};
    if (thorough) { csizes.push_back(2); csizes.push_back(0x400000); csizes.push_back(65536); }
    long idx = 0;
    for (int level = 0; level <= 9; level++) {
        if (!thorough && !(level == 0 || level == 1 || level == 6 || level == 9 || level == 3)) continue;
        for (long C : csizes) {
            for (int rp = 0; rp <= 1; rp++) {
                if (!thorough && ((level + rp + (int) (C % 3)) % 2)) continue;      // thin the quick grid
                // sequence template: empty, single, mixed small, mixed with big payloads
                int tmpl = (int) (rng() % 4);
                long nobj = tmpl == 0 ? 0 : tmpl == 1 ? 1 : (C <= 17 ? 6 : 40);
                long big = tmpl == 3 ? (C <= 17 ? 300 : 3 * std::min<long>(C, 0x30000)) : 200;
                std::string fn = dir + "/w_" + std::to_string(idx++) + ".blf";
                // the path already holds a longer, unrelated file (an earlier log): nothing of it may survive
                if (idx % 2 == 0) {
                    std::vector<uint8_t> old((size_t) (200000 + (rng() % 100000)));
                    for (auto & c : old) c = (uint8_t) rng();
                    kit::write_file(fn, old);
                }
                alarm(120);      // a session that does not end kills the driver: the check reports the failure
                std::vector<uint8_t> truth;
                long n115 = 0;
                FileStatistics want;
                bool late_cfg = false;
                {
                    File f;
                    f.setDefaultLogContainerSize((uint32_t) C);
                    // every third session configures level and restore points only after open() (they are used when
                    // the first container is compressed / at close): the file must be the same as with early settings
                    bool late = late_cfg = (idx % 3) == 1;
                    f.compressionLevel = late ? (level == 0 ? 6 : 0) : level;
                    f.writeRestorePoints = late ? (rp == 0) : (rp != 0);
                    // caller-supplied header fields
                    f.fileStatistics.applicationId = (uint8_t) rng();
                    f.fileStatistics.applicationMajor = (uint8_t) rng();
                    f.fileStatistics.applicationMinor = (uint8_t) rng();
                    f.fileStatistics.applicationBuild = (uint32_t) rng();
                    f.fileStatistics.apiNumber = (uint32_t) rng();
                    // a caller field like the others: deliberately NOT the level the File compresses with
                    f.fileStatistics.compressionLevel = (uint8_t) ((level + 1 + f.fileStatistics.applicationId % 9) % 10);
                    f.fileStatistics.measurementStartTime.year = (uint16_t) rng();
                    want = f.fileStatistics;
                    f.open(fn.c_str(), std::ios_base::out);
                    if (late) {
                        // let the worker threads start and block on the empty pipeline first
                        std::this_thread::sleep_for(std::chrono::milliseconds(30));
                        f.compressionLevel = level;
                        f.writeRestorePoints = rp != 0;
                    }
                    // some header fields are only known later: set after open() ...
                    f.fileStatistics.measurementStartTime.milliseconds = want.measurementStartTime.milliseconds = (uint16_t) rng();
                    f.fileStatistics.applicationBuild = want.applicationBuild = (uint32_t) rng();
                    for (long i = 1; i <= nobj; i++) {
                        ObjectHeaderBase * ob = make_obj(rng, (int) (rng() % 6), i, big);
                        std::vector<uint8_t> e = kit::encode(*ob);
                        truth.insert(truth.end(), e.begin(), e.end());
                        if (ob->objectType == ObjectType::Unknown115) n115++;
                        f.write(ob);
                    }
                    // ... or just before close()
                    f.fileStatistics.lastObjectTime.day = want.lastObjectTime.day = (uint16_t) rng();
                    f.close();
                }
                kit::write_file(fn + ".payload", truth);
                JObj o;
                o.puts("file", fn).put("C", C).put("level", (long) level).putb("rp", rp != 0).putb("late", late_cfg);
                o.put("nobj", nobj).put("n115", n115).put("total", (long) truth.size());
                JObj w;
                w.put("applicationId", (long) want.applicationId).put("applicationMajor", (long) want.applicationMajor)
                    .put("applicationMinor", (long) want.applicationMinor).put("applicationBuild", (long) (want.applicationBuild & 0x7fffffff))
                    .put("apiNumber", (long) (want.apiNumber & 0x7fffffff)).put("compressionLevel", (long) want.compressionLevel)
                    .put("startYear", (long) want.measurementStartTime.year).put("startMs", (long) want.measurementStartTime.milliseconds)
                    .put("lastDay", (long) want.lastObjectTime.day);
                o.raw("want", w.str());
                o.raw("reader", readback(fn));
                printf("CASE %s\n", o.str().c_str());
                fflush(stdout);
            }
        }
    }
    return 0;
}
