// Write sessions of Vector::BLF::File under the controlled scheduler.
//   drv_wsession describe <scenarios>            -> one JSON line per scenario (constants of spec/WriteSession.tla)
//   drv_wsession replay   <scenarios> <paths>    -> M1 edge replay (RESULT line)
//   drv_wsession random   <scenarios> <seed> <runs>   -> seeded random schedules: verdicts, output hashes, peaks
#include <unistd.h>

#include "blfkit.h"
#include "pathrun.h"

using namespace Vector::BLF;
using kit::MemFile;

struct Item {
    std::string kind;      // can | apptext | t115
    long a = 0, b = 0;
};
struct Scenario {
    std::string name;
    long B = 0x20000, Q = 10, C = 0x20000, post = 0, rp = 1, level = 0, late = 0, fault = 0;
    std::vector<Item> items;
    std::string filename;
};

static std::vector<Scenario> load_scenarios(const char * fn) {
    std::vector<Scenario> v;
    std::ifstream f(fn);
    std::string ln;
    while (std::getline(f, ln)) {
        std::vector<std::string> w = split_words(ln);
        if (w.empty()) continue;
        if (w[0] == "SCEN") { v.emplace_back(); v.back().name = w.at(1); }
        else if (w[0] == "PARAM") {
            for (size_t i = 1; i + 1 < w.size(); i += 2) {
                Scenario & s = v.back();
                const std::string & k = w[i];
                long x = atol(w[i + 1].c_str());
                if (k == "B") s.B = x;
                else if (k == "Q") s.Q = x;
                else if (k == "C") s.C = x;
                else if (k == "POST") s.post = x;
                else if (k == "RP") s.rp = x;
                else if (k == "LEVEL") s.level = x;
                else if (k == "FAULT") s.fault = x;     // random mode: the output file fails at a seeded step
                else if (k == "LATE") s.late = x;        // level / restore points are configured only after open()
            }
        } else if (w[0] == "ITEM") {
            Item it;
            it.kind = w.at(1);
            if (w.size() > 2) it.a = atol(w[2].c_str());
            if (w.size() > 3) it.b = atol(w[3].c_str());
            v.back().items.push_back(it);
        }
    }
    return v;
}

static void set_id(ObjectHeaderBase * o, uint64_t id) {
    if (auto * h = dynamic_cast<ObjectHeader *>(o)) h->objectTimeStamp = id;
    else if (auto * h2 = dynamic_cast<ObjectHeader2 *>(o)) h2->objectTimeStamp = id;
}
static long get_id(ObjectHeaderBase * o) {
    long id = 999;
    if (auto * h = dynamic_cast<ObjectHeader *>(o)) id = (long) (h->objectTimeStamp & 0x3fffffff);
    else if (auto * h2 = dynamic_cast<ObjectHeader2 *>(o)) id = (long) (h2->objectTimeStamp & 0x3fffffff);
    return id == 0 ? 777 : id;
}

static ObjectHeaderBase * make(const Item & it) {
    if (it.kind == "can") {
        auto * m = new CanMessage;
        set_id(m, it.a);
        m->channel = 1; m->dlc = 8; m->id = 0x100 + (uint32_t) it.a;
        return m;
    }
    if (it.kind == "apptext") {
        auto * m = new AppText;
        set_id(m, it.a);
        m->text.assign((size_t) it.b, 't');
        return m;
    }
    if (it.kind == "apptextr") {          // incompressible text (seeded by the id)
        auto * m = new AppText;
        set_id(m, it.a);
        std::mt19937_64 r((unsigned long) it.a * 7919u + 1);
        m->text.resize((size_t) it.b);
        for (auto & c : m->text) c = (char) (r() % 255 + 1);
        return m;
    }
    if (it.kind == "t115") {
        auto * m = new RestorePointContainer;
        set_id(m, it.a);
        return m;
    }
    return nullptr;
}

static std::string describe(Scenario & s) {
    JObj o;
    o.puts("name", s.name).put("B", s.B).put("Q", s.Q).put("C", s.C).putb("post", s.post != 0).putb("rp", s.rp != 0);
    long total = 0;
    std::vector<std::string> objs;
    for (const Item & it : s.items) {
        ObjectHeaderBase * ob = make(it);
        MemFile m;
        kit::Recorder rec(m);
        ob->write(rec);
        std::vector<long> ws;
        for (auto & p : rec.ops)
            if (p.first == 'w') ws.push_back(p.second);
        total += (long) m.buf.size();
        JObj d;
        d.put("id", get_id(ob)).putb("t115", ob->objectType == ObjectType::Unknown115);
        d.raw("ops", jarr(ws.begin(), ws.end(), [](long v) { return jint(v); }));
        objs.push_back(d.str());
        delete ob;
    }
    o.raw("objs", jarr(objs.begin(), objs.end(), [](const std::string & x) { return x; }));
    o.put("total", total);
    return o.str();
}

struct Session {
    File * file = nullptr;
    long nw = 0;
    const Scenario * sc = nullptr;
};

static const long INF = 1000000000;
static long inf64(std::streamsize v) { return v == std::numeric_limits<std::streamsize>::max() ? INF : (long) v; }
static long inf32(uint32_t v) { return v == 0xffffffffu ? INF : (long) v; }

static std::string tstate(Session & S, int tid) {
    if (tid >= vsched::nthreads()) return "none";
    vsched::Info i = vsched::info(tid);
    File & f = *S.file;
    switch (i.state) {
    case vsched::S_RUNNABLE: return "run";
    case vsched::S_FINISHED: return "done";
    case vsched::S_BLOCKED_JOIN: return "join";
    case vsched::S_BLOCKED_CV:
        if (i.obj == &f.m_uncompressedFile.tellgChanged) return "ufg";
        if (i.obj == &f.m_uncompressedFile.tellpChanged) return "ufp";
        if (i.obj == &f.m_readWriteQueue.tellgChanged) return "oqg";
        if (i.obj == &f.m_readWriteQueue.tellpChanged) return "oqp";
        return "cv?";
    default: return "mutex";
    }
}

// independent walk over the finished file: uncompressed size of every container, header fields
static void parse_output(const std::string & fn, std::vector<long> & usizes, long & count, long & unc) {
    std::vector<uint8_t> b = kit::read_file(fn);
    count = unc = -1;
    if (b.size() >= 144) {
        uint64_t u = 0;
        memcpy(&u, b.data() + 24, 8);
        unc = (long) u;
        count = (long) kit::rd32(b, 32);
    }
    size_t off = 144;
    while (off + 32 <= b.size() && memcmp(b.data() + off, "LOBJ", 4) == 0) {
        uint32_t osz = kit::rd32(b, off + 8);
        usizes.push_back((long) kit::rd32(b, off + 24));
        off += osz + (osz % 4);
    }
}

static std::string project(Session & S) {
    File & f = *S.file;
    UncompressedFile & u = f.m_uncompressedFile;
    ObjectQueue<ObjectHeaderBase> & q = f.m_readWriteQueue;
    JObj ju;
    ju.putb("abort", u.m_abort).put("g", (long) u.m_tellg).put("p", (long) u.m_tellp).put("gc", (long) u.m_gcount);
    ju.put("end", inf64(u.m_fileSize)).putb("good", u.m_rdstate == std::ios_base::goodbit);
    ju.put("dem", (long) u.m_demand);
    ju.raw("data", jarr(u.m_data.begin(), u.m_data.end(), [](const std::shared_ptr<LogContainer> & c) {
        return "[" + jint((long) c->filePosition) + "," + jint((long) c->uncompressedFileSize) + "]"; }));
    JObj jq;
    std::vector<long> ids;
    for (ObjectHeaderBase * x : snapshot(q.m_queue)) ids.push_back((long) get_id(x));
    jq.putb("abort", q.m_abort).put("g", (long) q.m_tellg).put("p", (long) q.m_tellp).put("end", inf32(q.m_fileSize));
    jq.putb("good", q.m_rdstate == std::ios_base::goodbit);
    jq.raw("q", jarr(ids.begin(), ids.end(), [](long v) { return jint(v); }));
    JObj o;
    o.raw("uf", ju.str()).raw("oq", jq.str());
    o.putb("uRun", f.m_uncompressedFileThreadRunning.raw()).putb("cRun", f.m_compressedFileThreadRunning.raw());
    o.putb("cfOpen", f.m_compressedFile.m_file.is_open());
    o.putb("ioOk", !f.m_compressedFile.m_file.bad());
    o.put("objCount", (long) f.currentObjectCount.raw()).put("uncSize", (long) f.currentUncompressedFileSize);
    o.put("nw", S.nw);
    std::vector<long> usizes;
    std::string hdr = "[]";
    if (vsched::nthreads() == 3 && vsched::all_finished()) {
        long count, unc;
        parse_output(S.sc->filename, usizes, count, unc);
        hdr = "[" + jint(count) + "," + jint(unc) + "]";
    }
    o.raw("out", jarr(usizes.begin(), usizes.end(), [](long v) { return jint(v); }));
    o.raw("hdr", hdr);
    o.puts("stA", tstate(S, 0)).puts("stU", tstate(S, 1)).puts("stC", tstate(S, 2));
    return o.str();
}

static void start_session(Session & S, const Scenario & sc) {
    vsched::reset();
    S.nw = 0;
    S.sc = &sc;
    S.file = new File;
    S.file->m_uncompressedFile.setBufferSize(sc.B);
    S.file->m_readWriteQueue.setBufferSize((uint32_t) sc.Q);
    S.file->setDefaultLogContainerSize((uint32_t) sc.C);
    S.file->compressionLevel = sc.late ? (sc.level == 0 ? 6 : 0) : (int) sc.level;
    S.file->writeRestorePoints = sc.late ? (sc.rp == 0) : (sc.rp != 0);
    vsched::set_untracked(&S.file->m_compressedFile.m_mutex);
    if (sc.post) vsched::set_post_unlock(&S.file->m_readWriteQueue.m_mutex);
    Session * sp = &S;
    vsched::spawn([sp] {
        File & f = *sp->file;
        f.open(sp->sc->filename.c_str(), std::ios_base::out);
        if (sp->sc->late) {
            vsched::app_point();      // the workers may already be running (and waiting) when the application gets here
            f.compressionLevel = (int) sp->sc->level;
            f.writeRestorePoints = sp->sc->rp != 0;
        }
        for (const Item & it : sp->sc->items) {
            f.write(make(it));
            sp->nw++;
        }
        f.close();
    });
}

// I/O fault of the output file, injected between two scheduler steps (no thread is running): the fstream gets
// badbit exactly as after a failed write (disk full, quota, medium removed); what it is given from now on is dropped
static void inject_fault(Session & S) {
    S.file->m_compressedFile.m_file.setstate(std::ios_base::badbit);
}

static bool drain(long budget) {
    for (;;) {
        bool any = false;
        for (int t = 0; t < vsched::nthreads(); t++)
            if (vsched::runnable(t)) {
                vsched::step(t);
                any = true;
                if (--budget <= 0) return false;
            }
        if (!any) return true;
    }
}

static std::string finish_session(Session & S, long budget) {
    std::string verdict;
    if (!drain(budget)) verdict = "livelock";
    else if (!vsched::all_finished()) verdict = "deadlock";
    if (!verdict.empty()) {
        File & f = *S.file;
        f.m_compressedFileThreadRunning.store(false);
        f.m_uncompressedFileThreadRunning.store(false);
        f.m_uncompressedFile.abort();
        f.m_readWriteQueue.abort();
        f.m_uncompressedFile.setFileSize(0);
        f.m_readWriteQueue.setFileSize(0);
        drain(budget);
    }
    if (vsched::all_finished()) delete S.file;
    S.file = nullptr;
    return verdict;
}

static uint64_t fnv(const std::vector<uint8_t> & b) {
    uint64_t h = 1469598103934665603ull;
    for (uint8_t c : b) { h ^= c; h *= 1099511628211ull; }
    return h;
}

int main(int argc, char ** argv) {
    if (argc < 3) return 2;
    std::string mode = argv[1];
    std::vector<Scenario> scs = load_scenarios(argv[2]);
    // every process writes its own output files
    std::string dir = std::string(argv[2]) + ".d/" + std::to_string((long) getpid());
    std::string mk = "mkdir -p '" + dir + "'";
    if (system(mk.c_str()) != 0) return 2;
    std::map<std::string, Scenario *> byname;
    for (auto & s : scs) { s.filename = dir + "/" + s.name + ".blf"; byname[s.name] = &s; }
    int rc = 2;

    if (mode == "weak") {
        // drv_* weak <scenarios> <paths> <out>: the thread sequence of every path is used as a schedule (hints);
        // what is recorded is the sequence of DISTINCT projections of the real state (one line per execution).
        std::vector<PPath> paths = load_paths(argv[3]);
        FILE * out = fopen(argv[4], "w");
        long n = 0, hangs = 0;
        std::string firstHang;
        for (size_t pi = 0; pi < paths.size() && hangs < 3; pi++) {
            const PPath & p = paths[pi];
            Scenario * sc = byname[p.init.at(1)];
            if (!sc) return 2;
            Session S;
            start_session(S, *sc);
            std::vector<std::string> steps;
            steps.push_back(project(S));
            auto note = [&] { std::string g = project(S); if (g != steps.back()) steps.push_back(g); };
            for (size_t si = 0; si < p.steps.size(); si++) {
                const std::string & t = p.steps[si].act.at(0);
                if (t == "spur") {
                    const std::string & w = p.steps[si].act.at(1);
                    vsched::spurious_wake(w == "A" ? 0 : w == "U" ? 1 : 2);
                    note();
                    continue;
                }
                if (t == "fault") { inject_fault(S); note(); continue; }
                int tid = t == "A" ? 0 : t == "U" ? 1 : 2;
                if (tid < vsched::nthreads() && vsched::runnable(tid)) { vsched::step(tid); note(); }
            }
            long budget = 300000;
            std::string verdict;
            for (;;) {
                bool any = false;
                for (int t = 0; t < vsched::nthreads(); t++)
                    if (vsched::runnable(t)) { vsched::step(t); note(); any = true; if (--budget <= 0) break; }
                if (budget <= 0) { verdict = "livelock"; break; }
                if (!any) { verdict = vsched::all_finished() ? "" : "deadlock"; break; }
            }
            fprintf(out, "{\"scen\":\"%s\",\"steps\":%s}\n", sc->name.c_str(),
                    jarr(steps.begin(), steps.end(), [](const std::string & x) { return x; }).c_str());
            n++;
            if (!verdict.empty()) {
                hangs++;
                if (firstHang.empty()) firstHang = sc->name + ": " + verdict + " at " + steps.back();
            }
            finish_session(S, 20000);
        }
        fclose(out);
        vsched::reset();
        JObj o;
        o.puts("driver", "session_weak").put("paths", n).put("mismatches", hangs);
        if (!firstHang.empty()) {
            std::string d;
            for (char c : firstHang) d += (c == '"' || c == '\\') ? '\'' : c;
            o.puts("first", d);
        }
        printf("RESULT %s\n", o.str().c_str());
        { std::string rm2 = "rm -rf '" + dir + "'"; (void) !system(rm2.c_str()); return 0; }
    }

    if (mode == "describe") {
        for (auto & s : scs) printf("DESC %s\n", describe(s).c_str());
        rc = 0;
    } else if (mode == "replay") {
        std::vector<PPath> paths = load_paths(argv[3]);
        RunStats st;
        int hangs = 0;
        for (size_t pi = 0; pi < paths.size(); pi++) {
            const PPath & p = paths[pi];
            Scenario * sc = byname[p.init.at(1)];
            if (!sc) { fprintf(stderr, "unknown scenario %s\n", p.init.at(1).c_str()); return 2; }
            Session S;
            start_session(S, *sc);
            st.paths++;
            bool bad = false;
            std::string got = project(S);
            if (got != p.initExpect) { st.mismatch(pi, -1, "init " + sc->name, p.initExpect, got); bad = true; }
            for (size_t si = 0; !bad && si < p.steps.size(); si++) {
                const PStep & s = p.steps[si];
                const std::string & t = s.act.at(0);
                if (t == "spur") {       // spurious wake-up of the thread named in the argument
                    const std::string & w = s.act.at(1);
                    vsched::spurious_wake(w == "A" ? 0 : w == "U" ? 1 : 2);
                    st.steps++;
                    got = project(S);
                    if (got != s.expect) { st.mismatch(pi, si, sc->name + " " + join_words(s.act), s.expect, got); bad = true; }
                    continue;
                }
                if (t == "fault") {      // the environment: the output file fails now
                    inject_fault(S);
                    st.steps++;
                    got = project(S);
                    if (got != s.expect) { st.mismatch(pi, si, sc->name + " " + join_words(s.act), s.expect, got); bad = true; }
                    continue;
                }
                int tid = t == "A" ? 0 : t == "U" ? 1 : 2;
                if (!vsched::runnable(tid)) {
                    st.mismatch(pi, si, sc->name + " " + join_words(s.act), "\"thread can step\"", project(S));
                    bad = true;
                    break;
                }
                std::string before = got;
                vsched::step(tid);
                st.steps++;
                got = project(S);
                // tolerate extra invisible steps of the implementation (e.g. an added observer call):
                // a step that changes nothing observable where the spec expects a change is retried
                for (int extra = 0; extra < 3 && got != s.expect && got == before && vsched::runnable(tid); extra++) {
                    vsched::step(tid);
                    got = project(S);
                }
                if (got != s.expect) { st.mismatch(pi, si, sc->name + " " + join_words(s.act), s.expect, got); bad = true; }
            }
            std::string v = finish_session(S, bad ? 20000 : 400000);
            if (!bad && !v.empty())
                st.mismatch(pi, p.steps.size(), sc->name + " drain", "\"session terminates\"", "\"" + v + "\"");
            if (!v.empty() && ++hangs >= 3) break;      // every further path would burn its step budget as well
        }
        vsched::reset();
        st.print("wsession");
        rc = 0;
    } else if (mode == "weakmode") {
    } else if (mode == "random") {
        unsigned long seed = strtoul(argv[3], nullptr, 10);
        long runs = atol(argv[4]);
        FILE * tf = argc > 5 ? fopen(argv[5], "w") : nullptr;
        std::mt19937_64 rng(seed);
        for (auto & sc : scs) {
            long ok = 0, deadlock = 0, livelock = 0, steps = 0, maxHeld = 0, maxQ = 0, maxConts = 0;
            std::set<uint64_t> hashes;
            std::string firstBad;
            long lastSteps = 2000, faults = 0;
            for (long r = 0; r < runs; r++) {
                Session S;
                start_session(S, sc);
                // FAULT: the output file fails at a seeded step of this run (position drawn over the length of the last run)
                long faultAt = sc.fault ? (long) (rng() % (unsigned long) (lastSteps + 1)) : -1;
                long runSteps = 0;
                bool faulted = false;
                if (tf) fprintf(tf, "{\"e\":\"Reset\",\"scen\":\"%s\",\"pt\":%s}\n", sc.name.c_str(), project(S).c_str());
                long budget = getenv("VERIF_BUDGET") ? atol(getenv("VERIF_BUDGET")) : 4000000;
                std::string verdict;
                if (sc.late && (r % 2 == 1)) {
                    // directed prefix: every other run lets the workers start and settle before the application
                    // configures level / restore points (the other runs leave the order to the seeded schedule)
                    for (int k = 0; k < 200 && vsched::runnable(0) && vsched::info(0).kind != vsched::K_APP; k++) { vsched::step(0); steps++; }
                    for (int t = 1; t < vsched::nthreads(); t++)
                        for (int k = 0; k < 8 && vsched::runnable(t); k++) { vsched::step(t); steps++; }
                }
                for (;;) {
                    std::vector<int> run;
                    for (int t = 0; t < vsched::nthreads(); t++)
                        if (vsched::runnable(t)) run.push_back(t);
                    if (run.empty()) { verdict = vsched::all_finished() ? "" : "deadlock"; break; }
                    int t = run[rng() % run.size()];
                    long burst = 1 + (long) (rng() % ((rng() % 8 == 0) ? 5000 : 64));   // occasionally starve the others
                    for (long b = 0; b < burst && vsched::runnable(t); b++) {
                        if (faultAt >= 0 && !faulted && runSteps >= faultAt && S.file->m_compressedFile.m_file.is_open()) {
                            inject_fault(S);
                            faulted = true;
                            faults++;
                            if (tf) fprintf(tf, "{\"e\":\"fault\",\"pt\":%s}\n", project(S).c_str());
                        }
                        vsched::step(t);
                        steps++;
                        runSteps++;
                        if (tf) fprintf(tf, "{\"e\":\"%s\",\"pt\":%s}\n", t == 0 ? "A" : t == 1 ? "U" : "C", project(S).c_str());
                        long held = 0;
                        for (auto & c : S.file->m_uncompressedFile.m_data) held += (long) c->uncompressedFileSize;
                        if (held > maxHeld) maxHeld = held;
                        long nc = (long) S.file->m_uncompressedFile.m_data.size();
                        if (nc > maxConts) maxConts = nc;
                        long ql = (long) S.file->m_readWriteQueue.m_queue.size();
                        if (ql > maxQ) maxQ = ql;
                        if (--budget <= 0) break;
                    }
                    if (budget <= 0) { verdict = "livelock"; break; }
                }
                lastSteps = runSteps;
                if (verdict.empty()) { ok++; if (!faulted) hashes.insert(fnv(kit::read_file(sc.filename))); }
                else {
                    if (verdict == "deadlock") deadlock++; else livelock++;
                    if (firstBad.empty()) {
                        JObj o;
                        o.puts("verdict", verdict).put("run", r).raw("state", project(S));
                        firstBad = o.str();
                    }
                }
                finish_session(S, 400000);
            }
            JObj o;
            o.puts("driver", "wsession_random").puts("scen", sc.name).put("runs", runs).put("ok", ok)
                .put("deadlock", deadlock).put("livelock", livelock).put("steps", steps)
                .put("maxHeld", maxHeld).put("maxQ", maxQ).put("maxConts", maxConts)
                .put("distinctOutputs", (long) hashes.size()).put("faults", faults);
            if (!hashes.empty()) o.puts("hash", std::to_string(*hashes.begin()));
            if (!firstBad.empty()) o.raw("first", firstBad);
            printf("RESULT %s\n", o.str().c_str());
        }
        if (tf) fclose(tf);
        vsched::reset();
        rc = 0;
    }
    std::string rm = "rm -rf '" + dir + "'";
    (void) !system(rm.c_str());
    return rc;
}
