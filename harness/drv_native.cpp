// Native (unscheduled) sessions with the genuine std::thread: sensor runs for C11
// under ThreadSanitizer, with seeded pacing of the application thread.
//   drv_native stress <dir> <seed> <sessions>
#include <chrono>
#include <random>
#include <thread>
#include <unistd.h>

#include "blfkit.h"
#include "pathrun.h"

using namespace Vector::BLF;

static void pace(std::mt19937_64 & rng, int mode) {
    switch (mode) {
    case 0: break;                                   // as fast as possible
    case 1: std::this_thread::yield(); break;
    case 2: if (rng() % 8 == 0) std::this_thread::sleep_for(std::chrono::microseconds(rng() % 300)); break;
    default: if (rng() % 64 == 0) std::this_thread::sleep_for(std::chrono::milliseconds(1 + rng() % 3)); break;
    }
}

int main(int argc, char ** argv) {
    if (argc < 5) return 2;
    std::string dir = argv[2];
    unsigned long seed = strtoul(argv[3], nullptr, 10);
    long sessions = atol(argv[4]);
    std::mt19937_64 rng(seed);
    long objects = 0, bad = 0;
    for (long s = 0; s < sessions; s++) {
        std::string fn = dir + "/native_" + std::to_string((long) getpid()) + "_" + std::to_string(s) + ".blf";
        int wmode = (int) (rng() % 4), rmode = (int) (rng() % 4);
        long n = 50 + (long) (rng() % 400);
        uint32_t csize = (uint32_t[]) {512, 4096, 0x20000, 0x30000}[rng() % 4];
        long early = (rng() % 3 == 0) ? (long) (rng() % (unsigned long) n) : -1;
        {
            File f;
            f.setDefaultLogContainerSize(csize);
            f.compressionLevel = (int) (rng() % 10);
            f.open(fn.c_str(), std::ios_base::out);
            for (long i = 1; i <= n; i++) {
                if (i % 5 == 0) {
                    auto * t = new AppText;
                    t->objectTimeStamp = (uint64_t) i;
                    t->text.assign((size_t) (rng() % 3000), 'a');
                    f.write(t);
                } else {
                    auto * m = new CanMessage;
                    m->objectTimeStamp = (uint64_t) i;
                    m->id = (uint32_t) i;
                    f.write(m);
                }
                pace(rng, wmode);
            }
            f.close();
        }
        {
            File f;
            f.open(fn.c_str(), std::ios_base::in);
            long i = 0;
            for (;;) {
                if (early >= 0 && i >= early) break;
                ObjectHeaderBase * o = f.read();
                if (!o) break;
                i++;
                auto * h = dynamic_cast<ObjectHeader *>(o);
                if (!h || (long) h->objectTimeStamp != i) bad++;
                // the application owns the object: scribble over it, then delete it
                if (h) h->objectTimeStamp = 0xdeadbeef;
                o->objectType = ObjectType::UNKNOWN;
                delete o;
                objects++;
                pace(rng, rmode);
            }
            if (early < 0 && i != n) bad++;
            f.close();
        }
        unlink(fn.c_str());
    }
    JObj o;
    o.puts("driver", "native_stress").put("sessions", sessions).put("objects", objects).put("bad", bad);
    printf("RESULT %s\n", o.str().c_str());
    return 0;
}
