// Native (unscheduled) sessions with the genuine std::thread: sensor runs for C11
// under ThreadSanitizer, with seeded pacing of the application thread.
//   drv_native stress <dir> <seed> <sessions>
//   drv_native big <dir> 0 0                   more than 4 GiB of objects (positions beyond 2^32)
//   drv_native pair <dir> <seed> <rounds>      three sessions at the same time, compared with the same sessions alone
#include <chrono>
#include <fstream>
#include <random>
#include <thread>
#include <unistd.h>

#include "blfkit.h"
#include "pathrun.h"

using namespace Vector::BLF;

static void pace(std::mt19937_64 & rng, int mode) {
    switch (mode) {
    case 0: break;                                   // as fast as possible
    case 1: std::this_thread::yield(); break;
    case 2: if (rng() % 8 == 0) std::this_thread::sleep_for(std::chrono::microseconds(rng() % 300)); break;
    default: if (rng() % 64 == 0) std::this_thread::sleep_for(std::chrono::milliseconds(1 + rng() % 3)); break;
    }
}

struct SessionResult {
    long objects = 0, bad = 0;
    uint64_t hash = 0;          // FNV of the written file's bytes
    long size = 0;
};

// one write session followed by one read session; the CONTENT depends only on contentSeed, the pacing on paceSeed
static SessionResult session(unsigned long contentSeed, unsigned long paceSeed, const std::string & fn, long scale) {
    SessionResult r;
    std::mt19937_64 rng(contentSeed), prng(paceSeed);
    int wmode = (int) (prng() % 4), rmode = (int) (prng() % 4);
    long n = (50 + (long) (rng() % 400)) * scale;
    uint32_t csize = (uint32_t[]) {512, 4096, 0x20000, 0x30000}[rng() % 4];
    long early = (rng() % 3 == 0 && scale == 1) ? (long) (rng() % (unsigned long) n) : -1;
    {
        File f;
        f.setDefaultLogContainerSize(csize);
        f.compressionLevel = (int) (rng() % 10);
        f.open(fn.c_str(), std::ios_base::out);
        for (long i = 1; i <= n; i++) {
            if (i % 5 == 0) {
                auto * t = new AppText;
                t->objectTimeStamp = (uint64_t) i;
                t->text.assign((size_t) (rng() % 3000), (char) ('a' + rng() % 26));
                f.write(t);
            } else {
                auto * m = new CanMessage;
                m->objectTimeStamp = (uint64_t) i;
                m->id = (uint32_t) i;
                f.write(m);
            }
            pace(prng, wmode);
        }
        f.close();
    }
    {
        std::ifstream in(fn, std::ios::binary);
        uint64_t h = 1469598103934665603ull;
        char buf[65536];
        while (in.read(buf, sizeof(buf)) || in.gcount() > 0) {
            for (std::streamsize k = 0; k < in.gcount(); k++) { h ^= (uint8_t) buf[k]; h *= 1099511628211ull; }
            r.size += (long) in.gcount();
        }
        r.hash = h;
    }
    {
        File f;
        f.open(fn.c_str(), std::ios_base::in);
        long i = 0;
        for (;;) {
            if (early >= 0 && i >= early) break;
            ObjectHeaderBase * o = f.read();
            if (!o) break;
            i++;
            auto * h = dynamic_cast<ObjectHeader *>(o);
            if (!h || (long) h->objectTimeStamp != i) r.bad++;
            // the application owns the object: scribble over it, then delete it
            if (h) h->objectTimeStamp = 0xdeadbeef;
            o->objectType = ObjectType::UNKNOWN;
            delete o;
            r.objects++;
            pace(prng, rmode);
        }
        if (early < 0 && i != n) r.bad++;
        f.close();
    }
    unlink(fn.c_str());
    return r;
}

int main(int argc, char ** argv) {
    if (argc < 5) return 2;
    std::string mode = argv[1];
    std::string dir = argv[2];
    unsigned long seed = strtoul(argv[3], nullptr, 10);
    long sessions = atol(argv[4]);
    std::mt19937_64 rng(seed);
    long objects = 0, bad = 0, differ = 0;
    std::string first;
    if (mode == "big") {
        // positions beyond 2^32: more than 4 GiB of (highly compressible) objects, then one default-constructed object
        // of every class; everything must come back, in order, with its class
        std::string fn = dir + "/big_" + std::to_string((long) getpid()) + ".blf";
        const long filler = 4106;                 // x 1 MiB of text
        alarm(300);                               // the unchanged library needs about 15 s; a session that hangs is killed
        std::vector<std::string> classes;
        {
            File f;
            f.compressionLevel = 1;
            f.open(fn.c_str(), std::ios_base::out);
            for (long i = 1; i <= filler; i++) {
                auto * t = new AppText;
                t->objectTimeStamp = (uint64_t) i;
                t->text.assign((size_t) 1 << 20, 'a');
                f.write(t);
            }
            for (uint32_t c = 0; c < 256; c++) {
                if (c == 10) continue;
                ObjectHeaderBase * o = File::createObject((ObjectType) c);
                if (!o) continue;
                if (File::createObject(o->objectType) == nullptr) { delete o; continue; }   // (listed finding: a code the reader skips)
                classes.push_back(typeid(*o).name());
                f.write(o);
            }
            f.close();
        }
        long got = 0, wrong = 0;
        std::string first;
        {
            File f;
            f.open(fn.c_str(), std::ios_base::in);
            for (;;) {
                ObjectHeaderBase * o = f.read();
                if (!o) break;
                got++;
                if (got <= filler) {
                    auto * t = dynamic_cast<AppText *>(o);
                    if (!t || (long) t->objectTimeStamp != got || t->text.size() != ((size_t) 1 << 20)) wrong++;
                } else {
                    size_t k = (size_t) (got - filler - 1);
                    if (k >= classes.size() || classes[k] != typeid(*o).name()) {
                        wrong++;
                        if (first.empty()) first = "object " + std::to_string(got) + " is " + typeid(*o).name();
                    }
                }
                delete o;
            }
            f.close();
        }
        unlink(fn.c_str());
        JObj o;
        o.puts("driver", "native_big").put("sessions", 1).put("objects", got).put("expected", filler + (long) classes.size()).put("bad", wrong);
        if (!first.empty()) o.puts("first", first);
        printf("RESULT %s\n", o.str().c_str());
        return 0;
    }
    if (mode == "pair") {
        // K File objects used at the same time by K application threads (each session from one thread): every session
        // must write the bytes and deliver the objects it writes/delivers when it runs alone in the process
        const int K = 3;
        for (long s = 0; s < sessions; s++) {
            unsigned long cs[K], ps[K];
            SessionResult alone[K], together[K];
            for (int k = 0; k < K; k++) { cs[k] = rng(); ps[k] = rng(); }
            for (int k = 0; k < K; k++)
                alone[k] = session(cs[k], ps[k], dir + "/pair_" + std::to_string((long) getpid()) + "_a" + std::to_string(k) + ".blf", 6);
            std::vector<std::thread> th;
            for (int k = 0; k < K; k++)
                th.emplace_back([&, k] {
                    together[k] = session(cs[k], ps[k] + 1, dir + "/pair_" + std::to_string((long) getpid()) + "_t" + std::to_string(k) + ".blf", 6);
                });
            for (auto & t : th) t.join();
            for (int k = 0; k < K; k++) {
                objects += together[k].objects;
                bad += alone[k].bad + together[k].bad;
                if (alone[k].hash != together[k].hash || alone[k].size != together[k].size) {
                    differ++;
                    if (first.empty())
                        first = "session " + std::to_string(s) + "/" + std::to_string(k) + ": " + std::to_string(alone[k].size) + " bytes alone, "
                            + std::to_string(together[k].size) + " bytes next to " + std::to_string(K - 1) + " other sessions (or different content)";
                }
            }
        }
        JObj o;
        o.puts("driver", "native_pair").put("sessions", sessions * K).put("objects", objects).put("bad", bad).put("differ", differ);
        if (!first.empty()) o.puts("first", first);
        printf("RESULT %s\n", o.str().c_str());
        return 0;
    }
    for (long s = 0; s < sessions; s++) {
        std::string fn = dir + "/native_" + std::to_string((long) getpid()) + "_" + std::to_string(s) + ".blf";
        SessionResult r = session(rng(), rng(), fn, 1);
        objects += r.objects;
        bad += r.bad;
    }
    JObj o;
    o.puts("driver", "native_stress").put("sessions", sessions).put("objects", objects).put("bad", bad);
    printf("RESULT %s\n", o.str().c_str());
    return 0;
}
