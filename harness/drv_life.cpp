// M3 replay of spec/Lifecycle.tla on the real File (native threads, ASan/LSan build).
//   drv_life <workdir> <paths>
#include <dirent.h>
#include <unistd.h>
#include <sanitizer/lsan_interface.h>

#include "blfkit.h"
#include <Vector/BLF/Exceptions.h>
#include "pathrun.h"

using namespace Vector::BLF;

static long os_threads() {
    long n = 0;
    if (DIR * d = opendir("/proc/self/task")) {
        while (struct dirent * e = readdir(d))
            if (e->d_name[0] != '.') n++;
        closedir(d);
    }
    return n;
}

int main(int argc, char ** argv) {
    if (argc < 3) return 2;
    std::string dir = std::string(argv[1]) + "/life_" + std::to_string((long) getpid());
    std::string mk = "mkdir -p '" + dir + "'";
    if (system(mk.c_str()) != 0) return 2;
    std::vector<PPath> paths = load_paths(argv[2]);
    std::map<long, std::string> inputs;
    auto input_for = [&](long n) {
        if (inputs.count(n)) return inputs[n];
        std::string fn = dir + "/in_" + std::to_string(n) + ".blf";
        File f;
        f.open(fn.c_str(), std::ios_base::out);
        for (long i = 1; i <= n; i++) {
            auto * m = new CanMessage;
            m->objectTimeStamp = (uint64_t) i;
            f.write(m);
        }
        f.close();
        inputs[n] = fn;
        return fn;
    };
    RunStats st;
    long base = os_threads();
    for (size_t pi = 0; pi < paths.size(); pi++) {
        const PPath & p = paths[pi];
        long n = atol(p.init.at(1).c_str());
        std::string in = input_for(n);
        std::string out = dir + "/out.blf";
        File * f = new File;
        std::vector<ObjectHeaderBase *> mine;
        long k = 0, w = 0;
        bool wrongId = false, reading = false, dead = false;
        auto project = [&]() {
            JObj o;
            o.putb("isOpen", f ? f->is_open() : false);
            o.putb("good", (f && reading) ? f->good() : true);
            o.putb("eof", (f && reading) ? f->eof() : false);
            o.put("k", k).put("w", w).putb("dead", dead);
            long th = -1;
            if (!(f && f->is_open())) {
                // a joined thread can stay visible in /proc for a moment: give it up to 400 ms to disappear
                for (int i = 0; i < 200 && (th = os_threads() - base) > 0; i++) usleep(2000);
            }
            o.put("threads", th);
            int leaked = 0;
            if (dead) leaked = __lsan_do_recoverable_leak_check() ? 1 : 0;
            o.put("leaked", leaked + (wrongId ? 2 : 0));
            return o.str();
        };
        st.paths++;
        std::string got = project();
        if (got != p.initExpect) { st.mismatch(pi, -1, "init", p.initExpect, got); delete f; continue; }
        for (size_t si = 0; si < p.steps.size(); si++) {
            const PStep & s = p.steps[si];
            const std::string & op = s.act.at(0);
            if (op == "openMissing") f->open("/nonexistent-dir-verif/missing.blf", std::ios_base::in);
            else if (op == "openUnwritable") f->open("/nonexistent-dir-verif/out.blf", std::ios_base::out);
            else if (op == "openIn") { f->open(in.c_str(), std::ios_base::in); reading = true; }
            else if (op == "openOut") f->open(out.c_str(), std::ios_base::out);
            else if (op == "openGarbage") {
                std::string g = dir + "/garbage.bin";
                kit::write_file(g, std::vector<uint8_t>(300, (uint8_t) 'x'));
                bool thrown = false;
                try { f->open(g.c_str(), std::ios_base::in); } catch (Vector::BLF::Exception &) { thrown = true; }
                if (!thrown) wrongId = true;       // the documented outcome is the library's exception
            }
            else if (op == "openAgain") f->open(reading ? out.c_str() : in.c_str(), reading ? std::ios_base::out : std::ios_base::in);
            else if (op == "read") {
                ObjectHeaderBase * o = f->read();
                if (o) {
                    k++;
                    auto * h = dynamic_cast<ObjectHeader *>(o);
                    if (!h || (long) h->objectTimeStamp != k) wrongId = true;
                    mine.push_back(o);
                }
            } else if (op == "write" || op == "writeClosed") {
                auto * m = new CanMessage;
                m->objectTimeStamp = (uint64_t) ++w;
                f->write(m);
            } else if (op == "close") { f->close(); reading = reading && f->is_open(); }
            else if (op == "destroy") {
                delete f;
                f = nullptr;
                for (auto * o : mine) delete o;
                mine.clear();
                dead = true;
                reading = false;
            }
            st.steps++;
            got = project();
            if (got != s.expect) { st.mismatch(pi, si, join_words(s.act), s.expect, got); break; }
        }
        // clean up whatever the path left alive (not compared)
        if (f) delete f;
        for (auto * o : mine) delete o;
    }
    std::string rm = "rm -rf '" + dir + "'";
    (void) !system(rm.c_str());
    st.print("life");
    return 0;
}
