// Codec-level drivers (single-threaded; plain or ASan build).
//   drv_codec frames   <seed> <quick|thorough>   -> FRAME {json} records, one per (type, shape, seed): what the real
//                                                   encoder/decoder did, validated by spec/Framing.tla
//   drv_codec registry                           -> REG {json} per type code 0..255 + boundary codes
//   drv_codec images   <file-with-hex-images> <quick|thorough>  -> IMG {json} per reference image (C02)
//   drv_codec poison   <pattern>                 -> POI {json}: encodings of default-constructed objects built in
//                                                   heap memory pre-filled with <pattern>
#include <csignal>
#include <map>
#include <set>
#include <sstream>
#include <sys/wait.h>
#include <unistd.h>

#include <malloc.h>

#include "blfkit.h"
#include "pathrun.h"
#include "reflect_gen.h"
#include <Vector/BLF/Exceptions.h>
#include <Vector/BLF/UncompressedFile.h>

using namespace Vector::BLF;
using kit::MemFile;

// ---- heap poisoning: every allocation is pre-filled with g_poison (when enabled) ----
static int g_poison = -1;
#if !defined(__SANITIZE_ADDRESS__)
void * operator new(size_t n) {
    if (n > (256u << 20)) throw std::bad_alloc();      // 256 MiB cap: an absurd size is an exception, not a hang
    void * p = malloc(n ? n : 1);
    if (!p) throw std::bad_alloc();
    if (g_poison >= 0) memset(p, g_poison, n);
    return p;
}
// freed blocks: pattern 0x55 leaves them as they were, the other patterns overwrite them before the block goes back
// to the allocator - so a result that depends on the contents of released memory (a stale read) differs between runs
static inline void poison_free(void * p) {
    if (p && g_poison >= 0 && g_poison != 0x55) {
        memset(p, g_poison, malloc_usable_size(p));
        __asm__ __volatile__("" : : "r"(p) : "memory");     // a store into memory that is freed next is dead to the optimiser
    }
    free(p);
}
void operator delete(void * p) noexcept { poison_free(p); }
void operator delete(void * p, size_t) noexcept { poison_free(p); }
#endif

static std::string g_case;
static void files_alarm(int) {
    printf("FILE {\"name\":\"files/hang/%s\",\"C\":0,\"level\":0,\"rp\":false,\"n\":1,\"delivered\":0,\"mismatched\":0,\"eofOk\":false,"
           "\"hash\":\"0\",\"size\":0,\"first\":\"write or read session does not end\"}\n", g_case.c_str());
    fflush(stdout);
    _exit(0);
}

static const char * header_kind(ObjectHeaderBase * o) {
    if (dynamic_cast<ObjectHeader *>(o)) return "v1";
    if (dynamic_cast<ObjectHeader2 *>(o)) return "v2";
    if (dynamic_cast<VarObjectHeader *>(o)) return "var";
    return "base";
}

static std::string dump(ObjectHeaderBase * o, bool skipHeader) {
    refl::Dumper d(skipHeader);
    refl::visit_dyn(o, d);
    return d.out;
}
static std::string shape(ObjectHeaderBase * o) {
    refl::Shape s;
    refl::visit_dyn(o, s);
    return s.out;
}

// first difference of two dumps, as "name: a != b"
static std::string first_diff(const std::string & a, const std::string & b) {
    size_t i = 0, j = 0;
    while (i < a.size() && j < b.size()) {
        size_t e1 = a.find(';', i), e2 = b.find(';', j);
        std::string x = a.substr(i, e1 - i), y = b.substr(j, e2 - j);
        if (x != y) return x.substr(0, 80) + " != " + y.substr(0, 80);
        i = e1 + 1; j = e2 + 1;
    }
    return a.size() == b.size() ? "" : "length";
}


// number of fixed-size members in which two objects of the same class differ
static int members_differing(ObjectHeaderBase * a, ObjectHeaderBase * b) {
    refl::Locator la, lb;
    refl::visit_dyn(a, la);
    refl::visit_dyn(b, lb);
    if (la.locs.size() != lb.locs.size()) return 99;
    int n = 0;
    for (size_t i = 0; i < la.locs.size(); i++)
        if (la.locs[i].n != lb.locs[i].n || memcmp(la.locs[i].p, lb.locs[i].p, la.locs[i].n) != 0) n++;
    return n;
}

// Verdict for a derived image (bytes [k, k+w) substituted) that is decoded completely with the same shape into q
// (o = decoded original) and re-encoded to out2 != mu.  Per member the substitution changed:
//   - flipping it in q does not change the encoding: the encoder overwrites it (a recomputed length/size field);
//   - flipping it changes the encoded size: it selects a layout, not a value inside an unchanged shape;
//   - otherwise the bytes it controls in the encoding must equal the image's bytes (its value survived).
// Bytes that differ outside the substituted window are acceptable only if the substitution changed how OTHER
// members were decoded (selector-like: several members differ, more bytes of them than the window holds).
//   'R' acceptable, 'S' selector (outside the property's precondition), 'B' bad
static std::set<std::string> g_ownedMembers;          // members the encoder overwrites when encoding (current image)
static std::set<std::string> g_recomputedMembers;     // members found to be overwritten by the encoder (current image)
static char judge_derived(ObjectHeaderBase * q, ObjectHeaderBase * o, const std::vector<uint8_t> & mu,
                          const std::vector<uint8_t> & out2, long k, int w) {
    if (out2.size() != mu.size()) return 'B';
    bool outside = false;
    for (size_t j = 0; j < mu.size(); j++)
        if (out2[j] != mu[j] && ((long) j < k || (long) j >= k + w)) outside = true;
    refl::Locator lq, lo;
    refl::visit_dyn(q, lq);
    refl::visit_dyn(o, lo);
    if (lq.locs.size() != lo.locs.size()) return 'B';
    int differing = 0;
    size_t differingBytes = 0;
    bool layout = false;
    for (size_t i = 0; i < lq.locs.size(); i++) {
        auto & L = lq.locs[i];
        if (memcmp(L.p, lo.locs[i].p, L.n) == 0) continue;
        differing++;
        differingBytes += L.n;
        std::vector<uint8_t> keep(L.p, L.p + L.n);
        refl::Locator::flip(L, 0xff);
        MemFile mm;
        try { q->write(mm); } catch (...) {}
        memcpy(L.p, keep.data(), L.n);
        MemFile restore;
        try { q->write(restore); } catch (...) {}
        if (mm.buf == out2) { g_recomputedMembers.insert(L.name); continue; }   // recomputed by the encoder
        if (mm.buf.size() != out2.size()) { layout = true; continue; }
        for (size_t j = 0; j < out2.size(); j++)
            if (mm.buf[j] != out2[j] && out2[j] != mu[j]) return 'B';   // a byte this member controls was not preserved
    }
    if (outside) return (differing > 1 && (differingBytes > (size_t) w || layout)) ? 'S' : 'B';
    return 'R';
}

struct FrameResult {
    std::string json;
    bool ok;
};

// encode o, check framing facts, decode, compare, re-encode
static FrameResult frame_record(ObjectHeaderBase * o, uint32_t code, const std::string & shapeName, unsigned long seed) {
    JObj r;
    r.put("code", (long) code).puts("cls", refl::class_name(o)).puts("hdr", header_kind(o)).puts("shape", shapeName).put("seed", (long) (seed & 0x7fffffff));
    std::string before = shape(o);
    // members the encoder overwrites (derived lengths / sizes): set to another value, encode, look again
    std::set<std::string> owned;
    {
        refl::Locator lo;
        refl::visit_dyn(o, lo);
        std::vector<std::vector<uint8_t>> keepAll;
        for (auto & L : lo.locs) keepAll.emplace_back(L.p, L.p + L.n);
        for (size_t i = 0; i < lo.locs.size(); i++) {
            auto & L = lo.locs[i];
            std::vector<uint8_t> flipped(L.n);
            refl::Locator::flip(L, 0xff);
            memcpy(flipped.data(), L.p, L.n);
            MemFile mm;
            try { o->write(mm); } catch (...) {}
            if (memcmp(L.p, flipped.data(), L.n) != 0) owned.insert(L.name);
            // restore everything (the encoder may have touched other derived members as well)
            for (size_t k = 0; k < lo.locs.size(); k++) memcpy(lo.locs[k].p, keepAll[k].data(), lo.locs[k].n);
        }
    }
    r.raw("ownedMembers", jarr(owned.begin(), owned.end(), [](const std::string & s) { return "\"" + s + "\""; }));
    MemFile m;
    bool threw = false;
    try { o->write(m); } catch (...) { threw = true; }
    std::vector<uint8_t> & b = m.buf;
    long emitted = (long) b.size();
    r.putb("encThrew", threw).put("emitted", emitted);
    {
        uint64_t h = 1469598103934665603ull;
        for (uint8_t c : b) { h ^= c; h *= 1099511628211ull; }
        r.puts("bytesHash", std::to_string(h));
    }
    bool sig = emitted >= 16 && memcmp(b.data(), "LOBJ", 4) == 0;
    long hs = emitted >= 16 ? kit::rd16(b, 4) : -1, hv = emitted >= 16 ? kit::rd16(b, 6) : -1;
    long os = emitted >= 16 ? (long) kit::rd32(b, 8) : -1, ot = emitted >= 16 ? (long) kit::rd32(b, 12) : -1;
    if (os > 0x3fffffff) os = -2;
    r.putb("sig", sig).put("hsField", hs).put("hvField", hv).put("osField", os).put("otField", ot);
    // the same bytes must reach the uncompressed stream the library writes objects into, wherever the log
    // container boundaries fall (at the object's end, inside its padding, inside its payload)
    bool ufSame = true;
    std::string ufWhy;
    bool idempotent = false;
    if (!threw) {
        // an encoder whose output depends on its own previous run (objectSize circularity, listed findings) is
        // judged by the size/consume/re-encode facts, not here
        MemFile again;
        try { o->write(again); idempotent = (again.buf == b); } catch (...) {}
    }
    if (idempotent && emitted >= 16 && emitted <= (1 << 20)) {
        std::set<long> sizes = {emitted, emitted - 1, emitted - 2, emitted - 3, os > 0 ? os : emitted};
        if (emitted <= 4096) sizes.insert(7);
        for (long c : sizes) {
            if (c <= 0 || !ufSame) continue;
            UncompressedFile uf;
            uf.setDefaultLogContainerSize((uint32_t) c);
            uf.setBufferSize(emitted + 64);
            try { o->write(uf); } catch (...) { ufSame = false; ufWhy = "threw"; break; }
            long tp = (long) uf.tellp();
            uf.setFileSize(tp);
            std::vector<uint8_t> back((size_t) emitted + 8, 0xee);
            uf.read(reinterpret_cast<char *>(back.data()), emitted + 8);
            long got = (long) uf.gcount();
            back.resize((size_t) (got < 0 ? 0 : got));
            if (tp != emitted || got != emitted || back != b) {
                ufSame = false;
                ufWhy = "container size " + std::to_string(c) + ": tellp " + std::to_string(tp) + " read back " + std::to_string(got) + " of " + std::to_string(emitted);
            }
        }
    }
    r.putb("ufSame", ufSame);
    if (!ufWhy.empty()) r.puts("ufWhy", ufWhy);
    // padding bytes (everything behind objectSize) must be zero
    bool padZero = true;
    for (long i = os; os >= 0 && i < emitted; i++) if (b[(size_t) i] != 0) padZero = false;
    r.putb("padZero", padZero);
    // the shape must not be changed by encoding (the caller's containers are what is written)
    r.putb("shapeKept", shape(o) == before);
    // decode with the class the factory gives for the type code in the bytes
    long consumed = -1;
    bool decGood = false, sameFields = false, sameShape = false, reenc = false, decThrew = false, allWidth = true;
    std::string diff;
    ObjectHeaderBase * o2 = (emitted >= 16) ? File::createObject((ObjectType) (uint32_t) ot) : nullptr;
    r.puts("decCls", o2 ? refl::class_name(o2) : "none");
    if (o2) {
        MemFile in;
        in.buf = b;
        try { o2->read(in); } catch (...) { decThrew = true; }
        consumed = (long) in.g;
        decGood = in.good();
        // Which members does the encoding of THIS object depend on?  (Optional trailing fields, fields of
        // another API version / serial-event variant and length fields the encoder derives are not part of it.)
        // Every member the encoding depends on, and every payload container, must come back unchanged.
        std::string d1, d2;
        {
            refl::Locator l1, l2;
            refl::visit_dyn(o, l1);
            refl::visit_dyn(o2, l2);
            sameFields = (l1.locs.size() == l2.locs.size()) && (std::string(refl::class_name(o)) == refl::class_name(o2));
            for (size_t i = 0; sameFields && i < l1.locs.size(); i++) {
                auto & L = l1.locs[i];
                bool equal = L.n == l2.locs[i].n && memcmp(L.p, l2.locs[i].p, L.n) == 0;
                if (equal) continue;
                if (L.name == "flags" || true) {
                    // sensitivity: flip the member, re-encode, restore
                    std::vector<uint8_t> keep(L.p, L.p + L.n);
                    refl::Locator::flip(L, 0x5a);
                    MemFile mm;
                    try { o->write(mm); } catch (...) {}
                    memcpy(L.p, keep.data(), L.n);
                    MemFile restore;                       // pre-processing may have touched derived members
                    try { o->write(restore); } catch (...) {}
                    if (mm.buf != b) {                     // the encoding depends on it and it did not come back
                        sameFields = false;
                        refl::Dumper a, c;
                        diff = L.name + " (" + refl::Dumper::hex(L.p, L.n) + " != " + refl::Dumper::hex(l2.locs[i].p, L.n) + ")";
                    }
                }
            }
            refl::Shape s1, s2;
            (void) d1; (void) d2;
        }
        // payload containers the encoding depends on must come back with the same content
        {
            refl::Containers c1, c2;
            refl::visit_dyn(o, c1);
            refl::visit_dyn(o2, c2);
            sameShape = c1.cs.size() == c2.cs.size();
            for (size_t i = 0; i < c1.cs.size() && i < c2.cs.size(); i++) {
                if (c1.cs[i].bytes == c2.cs[i].bytes) continue;
                c1.cs[i].grow();
                MemFile mm;
                try { o->write(mm); } catch (...) {}
                c1.cs[i].shrink();
                MemFile restore;
                try { o->write(restore); } catch (...) {}
                if (mm.buf != b) {
                    sameShape = false;
                    size_t a = c1.cs[i].bytes.size(), z = c2.cs[i].bytes.size();
                    // payload longer than its 8/16 bit length field can express: cut to the field's width
                    if (!((a >= 65536 && z == a % 65536) || (a >= 256 && z == a % 256) || (a >= 65536 * 8 && z == a % (65536 * 8))))
                        allWidth = false;
                    if (diff.empty()) diff = "container " + c1.cs[i].name + " len " + std::to_string(c1.cs[i].bytes.size()) + " != " + std::to_string(c2.cs[i].bytes.size());
                }
            }
        }
        MemFile m2;
        try { o2->write(m2); } catch (...) {}
        reenc = (m2.buf == b);
        delete o2;
    }
    r.put("consumed", consumed).putb("decGood", decGood).putb("decThrew", decThrew).putb("sameFields", sameFields)
        .putb("sameShape", sameShape).putb("reencSame", reenc).putb("widthTrunc", !sameShape && allWidth);
    if (!diff.empty()) {
        std::string d;
        for (char c : diff) d += (isalnum((unsigned char) c) || c == '.' || c == '=' || c == ' ' || c == '!' || c == '#') ? c : '?';
        r.puts("diff", d);
    }
    return {r.str(), true};
}

static std::vector<uint32_t> known_codes() {
    std::vector<uint32_t> v;
    for (uint32_t c = 0; c < 256; c++) {
        ObjectHeaderBase * o = File::createObject((ObjectType) c);
        if (o) { v.push_back(c); delete o; }
    }
    return v;
}

int main(int argc, char ** argv) {
    if (argc < 2) return 2;
    std::string mode = argv[1];
    if (mode == "frames") {
        unsigned long seed = strtoul(argv[2], nullptr, 10);
        bool thorough = std::string(argv[3]) == "thorough";
        if (argc > 4) g_poison = atoi(argv[4]);      // heap pre-filled with this pattern (C14)
        std::vector<std::pair<std::string, std::vector<size_t>>> plans = {
            {"empty", {0}}, {"one", {1}}, {"two", {2}}, {"three", {3}}, {"four", {4}}, {"five", {5}},
            {"mixed", {7, 0, 2, 13}}, {"k300", {300, 1}}, {"big64k1", {65537, 3}},
        };
        if (thorough) {
            plans.push_back({"big64k", {65536, 3}});
            plans.push_back({"k255", {255, 256, 257}});
        }
        long n = 0;
        for (uint32_t code : known_codes()) {
            if (code == 10) continue;      // LOG_CONTAINER is the container format (C04), not a log object
            int variants = thorough ? 6 : 3;
            // one child process per type: an encoder that crashes (reads outside the caller's containers)
            // must not take the other types' records with it
            fflush(stdout);
            pid_t pid = fork();
            if (pid != 0) {
                int status = 0;
                waitpid(pid, &status, 0);
                if (!(WIFEXITED(status) && WEXITSTATUS(status) == 0)) {
                    ObjectHeaderBase * o = File::createObject((ObjectType) code);
                    JObj r;
                    r.put("code", (long) code).puts("cls", refl::class_name(o)).puts("hdr", header_kind(o)).putb("crashed", true)
                        .put("status", (long) status);
                    printf("FRAME %s\n", r.str().c_str());
                    delete o;
                }
                n++;
                continue;
            }
            alarm(60);
            for (auto & pl : plans) {
                for (int v = 0; v < variants; v++) {
                    std::mt19937_64 rng(seed * 1000003ull + code * 7919ull + (unsigned long) v * 31ull + std::hash<std::string>()(pl.first));
                    ObjectHeaderBase * o = File::createObject((ObjectType) code);
                    refl::Sizer sz(pl.second);
                    refl::visit_dyn(o, sz);
                    if (v > 0 || pl.first != "empty") {       // variant 0 of "empty" = default-constructed object
                        refl::Randomizer rz(rng, v % 2 == 1);
                        refl::visit_dyn(o, rz);
                    }
                    FrameResult fr = frame_record(o, code, pl.first + (v == 0 && pl.first == "empty" ? "-default" : ""), seed + (unsigned long) v);
                    printf("FRAME %s\n", fr.json.c_str());
                    n++;
                    delete o;
                    if (sz.names.empty() && pl.first != "empty" && v >= 1) break;   // fixed-size type: shapes add nothing
                }
                if (false) break;
            }
            // deterministic sweep of API-version selectors (independent of the seed)
            {
                ObjectHeaderBase * probe = File::createObject((ObjectType) code);
                refl::Locator lp;
                refl::visit_dyn(probe, lp);
                bool hasApi = false;
                for (auto & L : lp.locs) if (L.name == "apiMajor") hasApi = true;
                delete probe;
                for (int api = 0; hasApi && api <= 4; api++) {
                    std::mt19937_64 rng(code * 7919ull + (unsigned long) api);
                    ObjectHeaderBase * o = File::createObject((ObjectType) code);
                    refl::Sizer sz({3, 1});
                    refl::visit_dyn(o, sz);
                    refl::Randomizer rz(rng, false);
                    refl::visit_dyn(o, rz);
                    refl::Locator l;
                    refl::visit_dyn(o, l);
                    for (auto & L : l.locs) if (L.name == "apiMajor") { memset(L.p, 0, L.n); L.p[0] = (uint8_t) api; }
                    FrameResult fr = frame_record(o, code, "api" + std::to_string(api), 0);
                    printf("FRAME %s\n", fr.json.c_str());
                    delete o;
                }
            }
            fflush(stdout);
            _exit(0);
        }
        JObj o;
        o.puts("driver", "codec_frames").put("paths", n);
        printf("RESULT %s\n", o.str().c_str());
        return 0;
    }
    if (mode == "walk") {
        // concatenation of encodings walked by header fields alone (padding set given by the caller)
        unsigned long seed = strtoul(argv[2], nullptr, 10);
        std::set<long> padTypes;
        for (int i = 3; i < argc; i++) padTypes.insert(atol(argv[i]));
        std::mt19937_64 rng(seed);
        std::vector<uint32_t> codes;
        {
            std::set<long> skip;
            if (const char * e = getenv("VERIF_WALK_SKIP")) {
                std::stringstream ss(e);
                std::string t;
                while (std::getline(ss, t, ',')) if (!t.empty()) skip.insert(atol(t.c_str()));
            }
            for (uint32_t c : known_codes()) if (!skip.count((long) c)) codes.push_back(c);
        }
        long walks = 0, bad = 0;
        std::string first;
        for (int rep = 0; rep < 40; rep++) {
            MemFile m;
            std::vector<long> starts;
            for (int k = 0; k < 50; k++) {
                uint32_t code = codes[rng() % codes.size()];
                if (code == 10) continue;
                ObjectHeaderBase * o = File::createObject((ObjectType) code);
                refl::Sizer sz({(size_t) (rng() % 9), (size_t) (rng() % 5)});
                refl::visit_dyn(o, sz);
                refl::Randomizer rz(rng, rng() % 2);
                refl::visit_dyn(o, rz);
                starts.push_back((long) m.buf.size());
                o->write(m);
                delete o;
            }
            long off = 0;
            size_t i = 0;
            bool ok = true;
            while (off < (long) m.buf.size()) {
                if (i >= starts.size() || off != starts[i] || memcmp(m.buf.data() + off, "LOBJ", 4) != 0) { ok = false; break; }
                long os = (long) kit::rd32(m.buf, (size_t) off + 8), ot = (long) kit::rd32(m.buf, (size_t) off + 12);
                off += os + (padTypes.count(ot) ? os % 4 : 0);
                i++;
            }
            if (ok && (i != starts.size() || off != (long) m.buf.size())) ok = false;
            walks++;
            if (!ok) {
                bad++;
                if (first.empty()) first = "walk " + std::to_string(rep) + " lost sync at object " + std::to_string(i) + " offset " + std::to_string(off)
                    + " type " + std::to_string(i < starts.size() ? (long) kit::rd32(m.buf, (size_t) starts[i > 0 ? i - 1 : 0] + 12) : -1);
            }
        }
        JObj o;
        o.puts("driver", "codec_walk").put("paths", walks).put("mismatches", bad);
        if (!first.empty()) o.puts("first", first);
        printf("RESULT %s\n", o.str().c_str());
        return 0;
    }
    if (mode == "registry") {
        std::vector<uint32_t> codes;
        for (uint32_t c = 0; c < 256; c++) codes.push_back(c);
        for (uint32_t c : {0x100u, 0xffffu, 0x10001u, 0x10000u + 65u, 0x7fffffffu, 0x80000001u, 0xffffffffu, 0xfffffff6u, 0x01000001u})
            codes.push_back(c);
        std::mt19937_64 rng(argc > 2 ? strtoul(argv[2], nullptr, 10) : 1);
        for (int i = 0; i < 2000; i++) { uint32_t c = (uint32_t) rng(); if (c >= 256) codes.push_back(c); }
        for (uint32_t c : codes) {
            ObjectHeaderBase * o = File::createObject((ObjectType) c);
            JObj r;
            r.put("code", (long) (c & 0x7fffffff)).putb("high", c > 255).puts("cls", o ? refl::class_name(o) : "none");
            r.put("ctorCode", o ? (long) (uint32_t) o->objectType : -1);
            if (o) {
                // does the class's own code map back to the same class?
                ObjectHeaderBase * o2 = File::createObject(o->objectType);
                r.puts("backCls", o2 ? refl::class_name(o2) : "none");
                delete o2;
                delete o;
            } else r.puts("backCls", "none");
            printf("REG %s\n", r.str().c_str());
        }
        return 0;
    }
    if (mode == "poison") {
        // encodings (and field dumps) of default-constructed objects of every class, built in poisoned heap memory
        g_poison = atoi(argv[2]);
        for (uint32_t code : known_codes()) {
            ObjectHeaderBase * o = File::createObject((ObjectType) code);
            std::string d = dump(o, false);
            MemFile m;
            o->write(m);
            JObj r;
            r.put("code", (long) code).puts("cls", refl::class_name(o)).puts("bytes", kit::hex(m.buf));
            uint64_t h = 1469598103934665603ull;
            for (char ch : d) { h ^= (uint8_t) ch; h *= 1099511628211ull; }
            r.puts("fields", std::to_string(h));
            printf("POI %s\n", r.str().c_str());
            delete o;
        }
        return 0;
    }
    if (mode == "images") {
        // each line: <name> <hex image incl. padding>
        std::ifstream f(argv[2]);
        bool thorough = argc > 3 && std::string(argv[3]) == "thorough";
        std::string name, hx;
        long imgs = 0, derived = 0;
        while (f >> name >> hx) {
            // one child per image: a decoder that crashes on a derived image must not lose the other images
            fflush(stdout);
            pid_t pid = fork();
            if (pid != 0) {
                int status = 0;
                waitpid(pid, &status, 0);
                if (!(WIFEXITED(status) && WEXITSTATUS(status) == 0)) {
                    std::vector<uint8_t> im = kit::unhex(hx);
                    JObj r;
                    r.puts("name", name).put("code", (long) kit::rd32(im, 12)).put("osField", (long) kit::rd32(im, 8)).put("len", (long) im.size());
                    r.puts("cls", "crashed").putb("complete", false).putb("identity", false).put("derivedOk", 0).put("derivedBad", 1)
                        .puts("firstBad", "decoder crashed on an image derived from this one (status " + std::to_string(status) + ")");
                    printf("IMG %s\n", r.str().c_str());
                }
                imgs++;
                continue;
            }
            alarm(300);
            std::vector<uint8_t> img = kit::unhex(hx);
            long os = (long) kit::rd32(img, 8);
            uint32_t ot = kit::rd32(img, 12);
            JObj r;
            r.puts("name", name).put("code", (long) ot).put("osField", os).put("len", (long) img.size());
            ObjectHeaderBase * o = File::createObject((ObjectType) ot);
            r.puts("cls", o ? refl::class_name(o) : "none");
            bool identity = false, complete = false;
            long badDerived = 0, okDerived = 0, ignoredBytes = 0, selectors = 0, recomputed = 0, inScope = 0;
            std::set<long> badOffsets;
            std::map<long, std::set<int>> badValues;      // offset -> substituted values that failed (groups: 1000 + 10*w + pattern)
            std::string firstBad;
            if (o) {
                MemFile in;
                in.buf = img;
                try { o->read(in); } catch (...) {}
                complete = in.good() && (long) in.g >= os;
                MemFile out;
                o->write(out);
                identity = (out.buf == img);
                // members the encoder overwrites (derived lengths / sizes): set to another value, encode, look again
                {
                    refl::Locator lo;
                    refl::visit_dyn(o, lo);
                    for (auto & L : lo.locs) {
                        std::vector<uint8_t> keep(L.p, L.p + L.n), flipped(L.n);
                        refl::Locator::flip(L, 0xff);
            memcpy(flipped.data(), L.p, L.n);
                        MemFile mm;
                        try { o->write(mm); } catch (...) {}
                        if (memcmp(L.p, flipped.data(), L.n) != 0) g_ownedMembers.insert(L.name);
                        memcpy(L.p, keep.data(), L.n);
                    }
                    MemFile restore;
                    try { o->write(restore); } catch (...) {}
                }
                std::string shp = shape(o);
                std::string dumpOrig = dump(o, false);
                bool continue_outer = false;
                long g0 = (long) in.g;
                // derived images: single bytes between the base header and the object size
                // boundary values, plus values that point at / just before the end of the object (offset and
                // length fields are compared against the object size by the decoders)
                const uint8_t subs[] = {0x00, 0x01, 0x7f, 0x80, 0xff};
                const uint8_t rel[] = {(uint8_t) os, (uint8_t) (os - 8)};
                int nsub = thorough ? 6 : 5;
                for (long k = 16; k < os && k < (long) img.size(); k++) {
                    // thorough: every other value for the first 80 bytes behind the base header (headers, selectors,
                    // offsets, lengths live there), boundary values for the rest
                    int count = (thorough && k < 96) ? 256 : nsub;
                    for (int s = 0; s < count; s++) {
                        uint8_t nv = count == 256 ? (uint8_t) s
                                     : thorough ? (s < 5 ? subs[s] : (uint8_t) (img[(size_t) k] ^ 0x55))
                                     : s < 3 ? subs[s == 0 ? 4 : s == 1 ? 1 : 0] : rel[s - 3];
                        if (nv == img[(size_t) k]) continue;
                        std::vector<uint8_t> mu = img;
                        mu[(size_t) k] = nv;
                        ObjectHeaderBase * q = File::createObject((ObjectType) ot);
                        MemFile in2;
                        in2.buf = mu;
                        bool threw = false;
                        try { q->read(in2); } catch (...) { threw = true; }
                        // only images still decoded completely and with the same shape are in the property's scope
                        if (!threw && in2.good() && (long) in2.g == g0 && shape(q) != shp) {
                            // the library's own view of the shape changed.  Independent of that view: an image that is
                            // decoded completely, consuming exactly the same bytes, must encode to the same number of bytes
                            MemFile out2;
                            try { q->write(out2); } catch (...) {}
                            if (out2.buf.size() != mu.size()) {
                                badDerived++;
                                badOffsets.insert(k);
                                badValues[k].insert(nv);
                                if (firstBad.empty())
                                    firstBad = "byte " + std::to_string(k) + "=" + std::to_string(nv) + ": decoded completely (" + std::to_string(g0)
                                        + " bytes) but re-encoded to " + std::to_string(out2.buf.size()) + " bytes instead of " + std::to_string(mu.size());
                            }
                        }
                        if (!threw && in2.good() && (long) in2.g == g0 && shape(q) == shp) {
                            MemFile out2;
                            try { q->write(out2); } catch (...) {}
                            derived++;
                            inScope++;
                            // a byte no member depends on (alignment padding, unused rest of a union) is not a
                            // field value: the encoder writes it as zero by design
                            if (out2.buf != mu && dump(q, false) == dumpOrig) { ignoredBytes++; continue_outer = true; }
                            if (continue_outer) { continue_outer = false; delete q; continue; }
                            // the substituted byte itself came back but other bytes changed: it selects a variant /
                            // version (not a value inside an unchanged shape) - outside the property's precondition
                            // (only if the substitution changed how OTHER members were decoded; if exactly the one
                            // member differs it is a plain value and must survive)
                            if (out2.buf != mu) {
                                char v = judge_derived(q, o, mu, out2.buf, k, 1);
                                if (v == 'S') { selectors++; delete q; continue; }
                                if (v == 'R') { recomputed++; delete q; continue; }
                            }
                            if (out2.buf == mu) okDerived++;
                            else {
                                badDerived++;
                                badOffsets.insert(k);
                                badValues[k].insert(nv);
                                if (firstBad.empty()) {
                                    size_t d = 0;
                                    while (d < mu.size() && d < out2.buf.size() && mu[d] == out2.buf[d]) d++;
                                    firstBad = "byte " + std::to_string(k) + "=" + std::to_string(nv) + ": re-encoding differs at " + std::to_string(d)
                                        + " (len " + std::to_string(out2.buf.size()) + " vs " + std::to_string(mu.size()) + ")";
                                }
                            }
                        }
                        delete q;
                    }
                }
                if (thorough) {
                    // aligned 2/4/8-byte groups with boundary values
                    for (int w : {2, 4, 8}) {
                        for (long k = 16; k + w <= os && k + w <= (long) img.size(); k += w) {
                            for (int pat = 0; pat < 4; pat++) {
                                std::vector<uint8_t> mu = img;
                                for (int i = 0; i < w; i++)
                                    mu[(size_t) (k + i)] = pat == 0 ? 0x00 : pat == 1 ? 0xff : pat == 2 ? (i == w - 1 ? 0x80 : 0x00) : (i == w - 1 ? 0x7f : 0xff);
                                if (mu == img) continue;
                                ObjectHeaderBase * q = File::createObject((ObjectType) ot);
                                MemFile in2;
                                in2.buf = mu;
                                bool threw = false;
                                try { q->read(in2); } catch (...) { threw = true; }
                                if (!threw && in2.good() && (long) in2.g == g0 && shape(q) == shp) {
                                    MemFile out2;
                                    try { q->write(out2); } catch (...) {}
                                    derived++;
                                    inScope++;
                                    if (out2.buf != mu && dump(q, false) == dumpOrig) { ignoredBytes++; delete q; continue; }
                                    if (out2.buf != mu) {
                                        char v = judge_derived(q, o, mu, out2.buf, k, w);
                                        if (v == 'S') { selectors++; delete q; continue; }
                                        if (v == 'R') { recomputed++; delete q; continue; }
                                    }
                                    if (out2.buf == mu) okDerived++;
                                    else {
                                        badDerived++;
                                        badOffsets.insert(k);
                                        badValues[k].insert(1000 + 10 * w + pat);
                                        if (firstBad.empty()) firstBad = "group " + std::to_string(k) + "/" + std::to_string(w) + " pattern " + std::to_string(pat);
                                    }
                                }
                                delete q;
                            }
                        }
                    }
                }
                delete o;
            }
            r.putb("complete", complete).putb("identity", identity).put("derivedOk", okDerived).put("derivedBad", badDerived).put("notAField", ignoredBytes).put("selectorLike", selectors).put("recomputed", recomputed);
            if (!firstBad.empty()) r.puts("firstBad", firstBad);
            r.put("inScope", inScope);
            r.raw("ownedMembers", jarr(g_ownedMembers.begin(), g_ownedMembers.end(), [](const std::string & s) { return "\"" + s + "\""; }));
            r.raw("recomputedMembers", jarr(g_recomputedMembers.begin(), g_recomputedMembers.end(), [](const std::string & s) { return "\"" + s + "\""; }));
            r.raw("badOffsets", jarr(badOffsets.begin(), badOffsets.end(), [](long v) { return jint(v); }));
            {
                // per offset the failing values as ranges, e.g. "1-79,137-255" (identifies the failing inputs exactly)
                std::string bv = "{";
                for (auto & kv : badValues) {
                    std::string rs;
                    int a = -1, b = -1;
                    auto flush = [&] { if (a < 0) return; if (!rs.empty()) rs += ","; rs += a == b ? std::to_string(a) : std::to_string(a) + "-" + std::to_string(b); };
                    for (int v : kv.second) {
                        if (a >= 0 && v == b + 1) { b = v; continue; }
                        flush();
                        a = b = v;
                    }
                    flush();
                    if (bv.size() > 1) bv += ",";
                    bv += "\"" + std::to_string(kv.first) + "\":\"" + rs + "\"";
                }
                bv += "}";
                r.raw("badValues", bv);
            }
            printf("IMG %s\n", r.str().c_str());
            fflush(stdout);
            _exit(0);
        }
        JObj o;
        o.puts("driver", "codec_images").put("paths", imgs).put("derived", derived);
        printf("RESULT %s\n", o.str().c_str());
        return 0;
    }
    if (mode == "defaults") {
        // drv_codec defaults <dir>: a default-constructed object of every class written through File (restore points
        // on/off, level 0/6), read back through File: what comes back for it (C17, file level)
        std::string dir = argv[2];
        signal(SIGALRM, files_alarm);
        long n = 0;
        for (uint32_t code : known_codes()) {
            if (code == 10) continue;
            for (int rp = 0; rp <= 1; rp++) {
                for (int level : {0, 6}) {
                    g_case = "default object of code " + std::to_string(code) + " rp=" + std::to_string(rp) + " level=" + std::to_string(level);
                    alarm(60);
                    std::string fn = dir + "/d_" + std::to_string((long) getpid()) + ".blf";
                    std::string cls;
                    long ctorCode;
                    {
                        File f;
                        f.compressionLevel = level;
                        f.writeRestorePoints = rp != 0;
                        f.open(fn.c_str(), std::ios_base::out);
                        ObjectHeaderBase * o = File::createObject((ObjectType) code);
                        cls = refl::class_name(o);
                        ctorCode = (long) (uint32_t) o->objectType;
                        f.write(o);
                        f.close();
                    }
                    long delivered = 0;
                    std::string backCls = "none";
                    long backCode = -1;
                    {
                        File f;
                        f.open(fn.c_str(), std::ios_base::in);
                        for (;;) {
                            ObjectHeaderBase * o = f.read();
                            if (!o) break;
                            if (delivered == 0) { backCls = refl::class_name(o); backCode = (long) (uint32_t) o->objectType; }
                            delivered++;
                            delete o;
                        }
                        f.close();
                    }
                    unlink(fn.c_str());
                    JObj r;
                    r.puts("name", cls + "/rp" + std::to_string(rp) + "/level" + std::to_string(level));
                    r.put("code", (long) code).puts("cls", cls).put("ctorCode", ctorCode).putb("rp", rp != 0).put("level", (long) level)
                        .put("delivered", delivered).puts("backCls", backCls).put("backCode", backCode);
                    printf("DEF %s\n", r.str().c_str());
                    n++;
                }
            }
        }
        alarm(0);
        JObj o;
        o.puts("driver", "codec_defaults").put("paths", n).put("steps", n).put("mismatches", 0);
        printf("RESULT %s\n", o.str().c_str());
        return 0;
    }
    if (mode == "files") {
        // drv_codec files <dir> <seed> <quick|thorough> [poison]: sequences of objects of all classes written through File
        // and read back through File over a configuration grid (native threads).
        std::string dir = argv[2];
        unsigned long seed = strtoul(argv[3], nullptr, 10);
        bool thorough = std::string(argv[4]) == "thorough";
        if (argc > 5) g_poison = atoi(argv[5]);
        signal(SIGALRM, files_alarm);
        std::set<long> skip;
        if (const char * e = getenv("VERIF_SKIP_CODES")) {
            std::stringstream ss(e);
            std::string t;
            while (std::getline(ss, t, ',')) if (!t.empty()) skip.insert(atol(t.c_str()));
        }
        std::vector<uint32_t> codes;
        for (uint32_t c : known_codes()) if (c != 10 && !skip.count((long) c)) codes.push_back(c);
        std::vector<long> csizes = {1, 17, 100, 4096, 0x1ffff, 0x20000, 0x20001, 0x100000};
        if (thorough) { csizes.push_back(3); csizes.push_back(0x400000); csizes.push_back(65536); }
        std::mt19937_64 rng(seed);
        long idx = 0;
        size_t nextCode = 0;
        for (int level = 0; level <= 9; level++) {
            if (!thorough && !(level == 0 || level == 1 || level == 6 || level == 9)) continue;
            for (long C : csizes) {
                for (int rp = 0; rp <= 1; rp++) {
                    if (!thorough && ((level + rp + (int) (C % 5)) % 2)) continue;
                    long nobj = C <= 17 ? 5 : (1 + (long) (rng() % 40));
                    g_case = "C=" + std::to_string(C) + " level=" + std::to_string(level) + " rp=" + std::to_string(rp);
                    alarm(90);          // a session that does not end is reported, not waited for
                    std::string fn = dir + "/f_" + std::to_string((long) getpid()) + "_" + std::to_string(idx++) + ".blf";
                    std::vector<std::string> want, wantCls;
                    {
                        File f;
                        f.setDefaultLogContainerSize((uint32_t) C);
                        f.compressionLevel = level;
                        f.writeRestorePoints = rp != 0;
                        f.open(fn.c_str(), std::ios_base::out);
                        for (long i = 0; i < nobj; i++) {
                            // every class appears: codes are taken round robin over the whole run
                            uint32_t code = codes[nextCode++ % codes.size()];
                            ObjectHeaderBase * o = File::createObject((ObjectType) code);
                            size_t big = (C > 17 && rng() % 6 == 0) ? (size_t) std::min<long>(2 * C + 7, 300000) : (size_t) (rng() % 40);
                            refl::Sizer sz({big, (size_t) (rng() % 7), (size_t) (rng() % 3)});
                            refl::visit_dyn(o, sz);
                            refl::Randomizer rz(rng, rng() % 2);
                            refl::visit_dyn(o, rz);
                            // normal form: what the object-level codec gives back for this object
                            MemFile m;
                            o->write(m);
                            ObjectHeaderBase * o1 = File::createObject((ObjectType) kit::rd32(m.buf, 12));
                            MemFile in;
                            in.buf = m.buf;
                            if (o1) { try { o1->read(in); } catch (...) {} }
                            want.push_back(o1 ? dump(o1, false) : "none");
                            wantCls.push_back(o1 ? refl::class_name(o1) : "none");
                            delete o1;
                            f.write(o);
                        }
                        f.close();
                    }
                    long delivered = 0, mismatched = 0;
                    std::string first;
                    bool eofOk = false;
                    {
                        File f;
                        f.open(fn.c_str(), std::ios_base::in);
                        for (;;) {
                            ObjectHeaderBase * o = f.read();
                            if (!o) break;
                            if (delivered < (long) want.size()) {
                                std::string got = dump(o, false);
                                if (got != want[(size_t) delivered] || wantCls[(size_t) delivered] != refl::class_name(o)) {
                                    mismatched++;
                                    if (first.empty()) first = wantCls[(size_t) delivered] + " #" + std::to_string(delivered) + ": " + first_diff(want[(size_t) delivered], got);
                                }
                            } else mismatched++;
                            delivered++;
                            delete o;
                        }
                        eofOk = f.eof() && !f.good();
                        f.close();
                    }
                    std::vector<uint8_t> bytes = kit::read_file(fn);
                    uint64_t h = 1469598103934665603ull;
                    for (uint8_t c : bytes) { h ^= c; h *= 1099511628211ull; }
                    unlink(fn.c_str());
                    JObj r;
                    r.puts("name", "files/C" + std::to_string(C) + "/level" + std::to_string(level) + "/rp" + std::to_string(rp) + "#" + std::to_string(idx));
                    r.put("C", C).put("level", (long) level).putb("rp", rp != 0).put("n", nobj).put("delivered", delivered)
                        .put("mismatched", mismatched).putb("eofOk", eofOk).puts("hash", std::to_string(h)).put("size", (long) bytes.size());
                    if (!first.empty()) {
                        std::string dd;
                        for (char c : first) dd += (isalnum((unsigned char) c) || c == '.' || c == '=' || c == ' ' || c == '!' || c == '#' || c == ':') ? c : '?';
                        r.puts("first", dd);
                    }
                    printf("FILE %s\n", r.str().c_str());
                    fflush(stdout);
                }
            }
        }
        return 0;
    }
    return 2;
}
