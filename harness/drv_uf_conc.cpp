// M1 edge replay of spec/StreamConc.tla: the real UncompressedFile driven by a writer, a reader and a controller
// thread under the controlled scheduler.   drv_uf_conc <paths>
//   P init <name> <B> <C> <mode> <abort> <writes,csv|-> <reads,csv|->
#include <Vector/BLF/UncompressedFile.h>

#include "pathrun.h"

using namespace Vector::BLF;

static const long INF = 1000000000;
static long inf64(std::streamsize v) { return v == std::numeric_limits<std::streamsize>::max() ? INF : (long) v; }

struct Fixture {
    UncompressedFile u;
    long total = 0;
};

static std::vector<long> csv(const std::string & s) {
    std::vector<long> v;
    if (s == "-") return v;
    std::stringstream ss(s);
    std::string t;
    while (std::getline(ss, t, ',')) v.push_back(atol(t.c_str()));
    return v;
}

static std::string tstate(Fixture & f, int tid) {
    vsched::Info i = vsched::info(tid);
    switch (i.state) {
    case vsched::S_RUNNABLE: return "run";
    case vsched::S_FINISHED: return "done";
    case vsched::S_BLOCKED_CV:
        if (i.obj == &f.u.tellgChanged) return "ufg";
        if (i.obj == &f.u.tellpChanged) return "ufp";
        return "cv?";
    default: return "other";
    }
}

static std::string project(Fixture & f) {
    UncompressedFile & u = f.u;
    JObj o;
    o.putb("abort", u.m_abort).put("g", (long) u.m_tellg).put("p", (long) u.m_tellp).put("gc", (long) u.m_gcount);
    o.put("end", inf64(u.m_fileSize)).putb("good", u.m_rdstate == std::ios_base::goodbit).put("dem", (long) u.m_demand);
    o.raw("data", jarr(u.m_data.begin(), u.m_data.end(), [](const std::shared_ptr<LogContainer> & c) {
        return "[" + jint((long) c->filePosition) + "," + jint((long) c->uncompressedFileSize) + "]"; }));
    o.put("total", f.total);
    o.puts("stW", tstate(f, 0)).puts("stR", tstate(f, 1)).puts("stK", tstate(f, 2));
    return o.str();
}

int main(int argc, char ** argv) {
    if (argc < 2) return 2;
    std::vector<PPath> paths = load_paths(argv[1]);
    RunStats st;
    int hangs = 0;
    for (size_t pi = 0; pi < paths.size() && hangs < 3; pi++) {
        const PPath & p = paths[pi];
        long B = atol(p.init.at(2).c_str()), C = atol(p.init.at(3).c_str());
        std::string mode = p.init.at(4);
        bool ab = p.init.at(5) == "1";
        std::vector<long> writes = csv(p.init.at(6)), reads = csv(p.init.at(7));
        vsched::reset();
        Fixture * f = new Fixture;
        f->u.setBufferSize(B);
        f->u.setDefaultLogContainerSize((uint32_t) C);
        vsched::spawn([f, writes, mode] {
            long pos = 0;
            for (long n : writes) {
                if (mode == "bytes") {
                    std::vector<char> b((size_t) n + 1);
                    for (long i = 0; i < n; i++) b[(size_t) i] = (char) (pos + i + 1);
                    f->u.write(b.data(), n);
                } else {
                    auto lc = std::make_shared<LogContainer>();
                    lc->uncompressedFile.resize((size_t) n);
                    for (long i = 0; i < n; i++) lc->uncompressedFile[(size_t) i] = (uint8_t) (pos + i + 1);
                    lc->uncompressedFileSize = (uint32_t) n;
                    f->u.write(lc);
                }
                pos += n;
            }
            f->u.setFileSize(f->u.tellp());
        });
        vsched::spawn([f, reads] {
            for (long n : reads) {
                std::vector<char> b((size_t) n + 8);
                f->u.read(b.data(), n);
                f->total += (long) f->u.gcount();
                if (!f->u.good()) break;
                f->u.dropOldData();
            }
        });
        vsched::spawn([f, ab] { if (ab) f->u.abort(); });
        st.paths++;
        bool bad = false;
        std::string got = project(*f);
        if (got != p.initExpect) { st.mismatch(pi, -1, "init " + p.init.at(1), p.initExpect, got); bad = true; }
        for (size_t si = 0; !bad && si < p.steps.size(); si++) {
            const PStep & s = p.steps[si];
            const std::string & t = s.act.at(0);
            int tid = t == "W" ? 0 : t == "R" ? 1 : 2;
            if (!vsched::runnable(tid)) { st.mismatch(pi, si, p.init.at(1) + " " + t, "\"thread can step\"", project(*f)); bad = true; break; }
            std::string before = got;
            vsched::step(tid);
            st.steps++;
            got = project(*f);
            for (int extra = 0; extra < 3 && got != s.expect && got == before && vsched::runnable(tid); extra++) {
                vsched::step(tid);
                got = project(*f);
            }
            if (got != s.expect) { st.mismatch(pi, si, p.init.at(1) + " " + t, s.expect, got); bad = true; }
        }
        long budget = 100000;
        auto drain = [&] {
            for (;;) {
                bool any = false;
                for (int t = 0; t < vsched::nthreads(); t++)
                    if (vsched::runnable(t)) { vsched::step(t); any = true; if (--budget <= 0) return; }
                if (!any) return;
            }
        };
        drain();
        bool stuck = !vsched::all_finished();
        if (stuck) { f->u.abort(); f->u.setFileSize(0); drain(); }
        // a configuration whose spec graph ends in a deadlock is reported by TLC, not here
        if (vsched::all_finished()) delete f;
        else { hangs++; if (!bad) st.mismatch(pi, p.steps.size(), p.init.at(1) + " drain", "\"threads finish after abort()\"", project(*f)); }
    }
    vsched::reset();
    st.print("uf_conc");
    return 0;
}
