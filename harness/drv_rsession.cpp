// Read sessions of Vector::BLF::File under the controlled scheduler.
//   drv_rsession describe <scenarios>            -> one JSON line per scenario (constants of spec/ReadSession.tla)
//   drv_rsession replay   <scenarios> <paths>    -> M1 edge replay (RESULT line)
//   drv_rsession random   <scenarios> <seed> <runs> <tracefile>  -> M2: seeded random schedules, ndjson trace
#include <sys/wait.h>
#include <unistd.h>

#include "blfkit.h"
#include "pathrun.h"
#include <Vector/BLF/Exceptions.h>

using namespace Vector::BLF;
using kit::MemFile;

// 256 MiB allocation cap standing in for a memory-limited host (C10): an absurd declared size is a
// std::bad_alloc inside the library, not gigabytes of zero-filling
static bool g_cap = true;
void * operator new(size_t n) {
    if (g_cap && n > (256u << 20)) throw std::bad_alloc();
    void * p = malloc(n ? n : 1);
    if (!p) throw std::bad_alloc();
    return p;
}
void operator delete(void * p) noexcept { free(p); }
void operator delete(void * p, size_t) noexcept { free(p); }

struct Item {
    std::string kind;      // can | apptext | unk | raw | t115 | serial | marker | canfd | env
    long a = 0, b = 0;
    std::string hex;
};
struct Scenario {
    std::string name;
    long B = 0x20000, Q = 10, post = 0, nreads = -1, method = 0, level = 0, cut = -1, chop = 0, hdr0 = 0, badcont = -1, surplus = 0;
    bool emptyFile = false;       // no complete container at all
    std::vector<long> pends;      // file offset behind the stored payload of each container
    std::string tail = "eof";
    std::string ref;              // path of an existing (reference) file to use instead of building one
    std::vector<Item> items;
    std::vector<long> conts;
    // derived
    std::vector<uint8_t> stream, filebytes;
    std::string filename;
    std::vector<long> expected;   // ids a complete read delivers (filled by describe())
};

static std::vector<Scenario> load_scenarios(const char * fn) {
    std::vector<Scenario> v;
    std::ifstream f(fn);
    std::string ln;
    while (std::getline(f, ln)) {
        std::vector<std::string> w = split_words(ln);
        if (w.empty()) continue;
        if (w[0] == "SCEN") { v.emplace_back(); v.back().name = w.at(1); }
        else if (w[0] == "PARAM") {
            for (size_t i = 1; i + 1 < w.size(); i += 2) {
                Scenario & s = v.back();
                const std::string & k = w[i];
                const std::string & x = w[i + 1];
                if (k == "B") s.B = atol(x.c_str());
                else if (k == "Q") s.Q = atol(x.c_str());
                else if (k == "POST") s.post = atol(x.c_str());
                else if (k == "NREADS") s.nreads = atol(x.c_str());
                else if (k == "METHOD") s.method = atol(x.c_str());
                else if (k == "LEVEL") s.level = atol(x.c_str());
                else if (k == "CUT") s.cut = atol(x.c_str());
                else if (k == "CHOP") s.chop = atol(x.c_str());
                else if (k == "HDR0") s.hdr0 = atol(x.c_str());
                else if (k == "BADCONT") s.badcont = atol(x.c_str());
                else if (k == "SURPLUS") s.surplus = atol(x.c_str());
                else if (k == "TAIL") s.tail = x;
                else if (k == "REF") s.ref = x;
            }
        } else if (w[0] == "ITEM") {
            Item it;
            it.kind = w.at(1);
            if (it.kind == "raw") it.hex = w.at(2);
            else {
                if (w.size() > 2) it.a = atol(w[2].c_str());
                if (w.size() > 3) it.b = atol(w[3].c_str());
            }
            v.back().items.push_back(it);
        } else if (w[0] == "CONTS") {
            for (size_t i = 1; i < w.size(); i++) v.back().conts.push_back(atol(w[i].c_str()));
        }
    }
    return v;
}

static void set_id(ObjectHeaderBase * o, uint64_t id) {
    if (auto * h = dynamic_cast<ObjectHeader *>(o)) h->objectTimeStamp = id;
    else if (auto * h2 = dynamic_cast<ObjectHeader2 *>(o)) h2->objectTimeStamp = id;
}
// identity of a delivered object = its time stamp; 0 is reserved for nullptr in the spec
static long get_id(ObjectHeaderBase * o) {
    long id = 999;
    if (auto * h = dynamic_cast<ObjectHeader *>(o)) id = (long) (h->objectTimeStamp & 0x3fffffff);
    else if (auto * h2 = dynamic_cast<ObjectHeader2 *>(o)) id = (long) (h2->objectTimeStamp & 0x3fffffff);
    return id == 0 ? 777 : id;
}

static void build(Scenario & s, const std::string & dir, bool writeFile) {
    s.stream.clear();
    for (const Item & it : s.items) {
        std::vector<uint8_t> b;
        if (it.kind == "can") {
            CanMessage m;
            set_id(&m, it.a);
            m.channel = 1; m.dlc = 8; m.id = 0x100 + (uint32_t) it.a;
            b = kit::encode(m);
        } else if (it.kind == "apptext") {
            AppText m;
            set_id(&m, it.a);
            m.text.assign((size_t) it.b, 't');
            b = kit::encode(m);
        } else if (it.kind == "t115") {
            RestorePointContainer m;
            set_id(&m, it.a);
            b = kit::encode(m);
        } else if (it.kind == "serial") {
            SerialEvent m;
            set_id(&m, it.a);
            m.general.data.assign((size_t) it.b, 0x33);
            m.general.timeStamps.assign(2, 0x0102030405060708ll);
            b = kit::encode(m);
        } else if (it.kind == "serialsb") {      // single-byte variant: one byte + 15 unused union bytes
            SerialEvent m;
            set_id(&m, it.a);
            m.flags = SerialEvent::Flags::SingleByte;
            m.singleByte.byte = 0x42;
            b = kit::encode(m);
        } else if (it.kind == "marker") {
            GlobalMarker m;
            set_id(&m, it.a);
            m.groupName = "group"; m.markerName = "marker"; m.description.assign((size_t) it.b, 'd');
            b = kit::encode(m);
        } else if (it.kind == "canfd") {
            CanFdMessage64 m;
            set_id(&m, it.a);
            m.data.assign((size_t) it.b, 0x44);
            b = kit::encode(m);
        } else if (it.kind == "env") {
            EnvironmentVariable m;
            m.objectType = ObjectType::ENV_DATA;
            set_id(&m, it.a);
            m.name = "env"; m.data.assign((size_t) it.b, 0x55);
            b = kit::encode(m);
        } else if (it.kind == "eth") {
            EthernetFrame m;
            set_id(&m, it.a);
            m.payLoad.assign((size_t) it.b, 0x66);
            b = kit::encode(m);
        } else if (it.kind == "unk") {
            b = kit::raw_object((uint32_t) it.a, (uint32_t) it.b, (uint32_t) it.b);
        } else if (it.kind == "raw") {
            b = kit::unhex(it.hex);
        }
        s.stream.insert(s.stream.end(), b.begin(), b.end());
    }
    if (s.chop > 0) {        // containers of a fixed size (the last one short)
        s.conts.clear();
        for (long off = 0; off < (long) s.stream.size(); off += s.chop)
            s.conts.push_back(std::min(s.chop, (long) s.stream.size() - off));
    }
    {   // normalise the partition: never beyond the stream, and covering all of it
        std::vector<long> fixed;
        long rem = (long) s.stream.size();
        for (long u : s.conts) {
            if (rem <= 0) break;
            long v = std::min(u, rem);
            fixed.push_back(v);
            rem -= v;
        }
        if (rem > 0 || fixed.empty()) fixed.push_back(rem);
        s.conts = fixed;
    }
    // file = statistics header + containers
    FileStatistics fs;
    std::vector<uint8_t> f = kit::statistics_bytes(fs);
    size_t off = 0;
    std::vector<long> conts = s.conts;
    if (conts.empty()) conts.push_back((long) s.stream.size());
    s.pends.clear();
    for (long u : conts) {
        std::vector<uint8_t> c = kit::container_bytes(s.stream.data() + off, (size_t) u, (int) s.method, (int) s.level);
        if ((long) s.pends.size() == s.badcont && s.surplus > 0 && s.method == 0) {
            // a stored container that carries more bytes than it declares (a foreign writer's fill bytes):
            // uncompress() refuses it - the declared size is what flow control and dropOldData account for
            c.resize(32 + (size_t) u);
            c.insert(c.end(), (size_t) s.surplus, (uint8_t) 0xEE);
            uint32_t osz = (uint32_t) c.size();
            memcpy(c.data() + 8, &osz, 4);
            c.insert(c.end(), osz % 4, (uint8_t) 0);
        } else
        if ((long) s.pends.size() == s.badcont && c.size() > 40) {       // damage the deflate stream: uncompress() throws
            for (size_t q = 34; q < c.size() && q < 44; q++) c[q] ^= 0xff;
        }
        s.pends.push_back((long) f.size() + (long) kit::rd32(c, 8));      // header + stored payload = objectSize
        f.insert(f.end(), c.begin(), c.end());
        off += (size_t) u;
    }
    if (s.hdr0)                    // the statistics header as open() writes it first: counters still zero
        for (size_t i = 16; i < 144 && i < f.size(); i++) f[i] = 0;
    if (!s.ref.empty()) f = kit::read_file(s.ref);
    if (s.tail == "foreign") {
        // a container whose objectSize (16) is below its own header: compressedFileSize wraps to ~4 GiB,
        // resize() throws std::bad_alloc under the allocation cap (a non-library exception in the worker)
        std::vector<uint8_t> j = kit::raw_object(10, 16, 32, 0);
        f.insert(f.end(), j.begin(), j.end());
    }
    if (s.tail == "junk") {
        std::vector<uint8_t> j = kit::raw_object(1, 48, 48);     // a non-container object at container level
        f.insert(f.end(), j.begin(), j.end());
    }
    if (s.cut >= 0 && (size_t) s.cut < f.size()) {
        // truncated file: what the reader can see is the prefix of completely stored containers
        f.resize((size_t) s.cut);
        size_t k = 0;
        long len = 0;
        while (k < s.pends.size() && s.pends[k] <= s.cut) { len += conts[k]; k++; }
        conts.resize(k);
        s.pends.resize(k);
        s.stream.resize((size_t) len);
        s.conts = conts;
        if (conts.empty()) s.conts.push_back(0), s.emptyFile = true;
    }
    s.filebytes = f;
    s.filename = dir + "/" + s.name + ".blf";
    if (writeFile) kit::write_file(s.filename, f);     // only 'describe' writes; parallel replays just read
}

// ---------------------------------------------------------------------------
static std::string describe(Scenario & s) {
    JObj o;
    o.puts("name", s.name).put("B", s.B).put("Q", s.Q).putb("post", s.post != 0).put("nreads", s.nreads);
    o.puts("tail", s.tail);
    std::vector<long> conts = s.conts;
    if (conts.empty()) conts.push_back((long) s.stream.size());
    if (s.emptyFile) conts.clear();
    {
        std::vector<std::string> cj;
        for (size_t i = 0; i < conts.size(); i++) {
            JObj c;
            c.put("usize", conts[i]).putb("ok", (long) i != s.badcont);
            cj.push_back(c.str());
        }
        o.raw("conts", jarr(cj.begin(), cj.end(), [](const std::string & x) { return x; }));
    }
    o.raw("cls", jarr(s.stream.begin(), s.stream.end(), [](uint8_t b) { return jstr(kit::byte_class(b)); }));
    o.raw("pends", jarr(s.pends.begin(), s.pends.end(), [](long v) { return jint(v); }));
    o.put("fsize", (long) s.filebytes.size());
    // descriptors: one per signature occurrence
    std::vector<std::string> objs;
    std::vector<long> expected;
    bool ended = false;        // an object size below the base header ends the session
    long total = (long) s.stream.size();
    for (long x = 0; x + 4 <= total; x++) {
        if (memcmp(s.stream.data() + x, "LOBJ", 4) != 0) continue;
        uint32_t osz = kit::rd32(s.stream, (size_t) x + 8), type = kit::rd32(s.stream, (size_t) x + 12);
        JObj d;
        d.put("pos", x).put("osz", (long) osz);
        ObjectHeaderBase * obj = (x + 16 <= total) ? File::createObject((ObjectType) type) : nullptr;
        if (osz < 16) ended = true;
        d.putb("known", obj != nullptr);
        d.putb("t115", type == 115);
        long id = 0, calc = 0;
        std::string ops = "[]";
        if (obj) {
            calc = obj->calculateObjectSize();
            // record the codec's calls against a real UncompressedFile holding the whole stream
            UncompressedFile uf;
            auto lc = std::make_shared<LogContainer>();
            lc->uncompressedFile = s.stream;
            lc->uncompressedFileSize = (uint32_t) total;
            uf.write(lc);
            uf.setFileSize(total);
            uf.seekg(x);
            kit::Recorder rec(uf);
            try { obj->read(rec); } catch (...) {}
            ops = jarr(rec.ops.begin(), rec.ops.end(), [](const std::pair<char, long> & p) {
                return "[" + jstr(std::string(1, p.first)) + "," + jint(p.second) + "]"; });
            id = get_id(obj);
            bool complete = uf.good() && (x + (long) osz <= total);
            if (complete && !ended) expected.push_back(id);
            delete obj;
        }
        d.put("id", id).put("calc", calc).raw("ops", ops);
        objs.push_back(d.str());
    }
    o.raw("objs", jarr(objs.begin(), objs.end(), [](const std::string & x) { return x; }));
    o.raw("expected", jarr(expected.begin(), expected.end(), [](long v) { return jint(v); }));
    s.expected = expected;
    return o.str();
}

// ---------------------------------------------------------------------------
struct Session {
    File * file = nullptr;
    std::vector<long> delivered;
    int app = -1;
};

static const long INF = 1000000000;
static long inf64(std::streamsize v) { return v == std::numeric_limits<std::streamsize>::max() ? INF : (long) v; }
static long inf32(uint32_t v) { return v == 0xffffffffu ? INF : (long) v; }

static std::string tstate(Session & S, int tid) {
    if (tid >= vsched::nthreads()) return "none";
    vsched::Info i = vsched::info(tid);
    File & f = *S.file;
    switch (i.state) {
    case vsched::S_RUNNABLE: return "run";
    case vsched::S_FINISHED: return "done";
    case vsched::S_BLOCKED_JOIN: return "join";
    case vsched::S_BLOCKED_CV:
        if (i.obj == &f.m_uncompressedFile.tellgChanged) return "ufg";
        if (i.obj == &f.m_uncompressedFile.tellpChanged) return "ufp";
        if (i.obj == &f.m_readWriteQueue.tellgChanged) return "oqg";
        if (i.obj == &f.m_readWriteQueue.tellpChanged) return "oqp";
        return "cv?";
    default: return "mutex";
    }
}

static std::string project(Session & S) {
    File & f = *S.file;
    UncompressedFile & u = f.m_uncompressedFile;
    ObjectQueue<ObjectHeaderBase> & q = f.m_readWriteQueue;
    JObj ju;
    ju.putb("abort", u.m_abort).put("g", (long) u.m_tellg).put("p", (long) u.m_tellp).put("gc", (long) u.m_gcount);
    ju.put("end", inf64(u.m_fileSize)).putb("good", u.m_rdstate == std::ios_base::goodbit);
    ju.put("dem", (long) u.m_demand);
    ju.raw("data", jarr(u.m_data.begin(), u.m_data.end(), [](const std::shared_ptr<LogContainer> & c) {
        return "[" + jint((long) c->filePosition) + "," + jint((long) c->uncompressedFileSize) + "]"; }));
    JObj jq;
    std::vector<long> ids;
    for (ObjectHeaderBase * x : snapshot(q.m_queue)) ids.push_back((long) get_id(x));
    jq.putb("abort", q.m_abort).put("g", (long) q.m_tellg).put("p", (long) q.m_tellp).put("end", inf32(q.m_fileSize));
    jq.putb("good", q.m_rdstate == std::ios_base::goodbit);
    jq.raw("q", jarr(ids.begin(), ids.end(), [](long v) { return jint(v); }));
    JObj o;
    o.raw("uf", ju.str()).raw("oq", jq.str());
    o.putb("uRun", f.m_uncompressedFileThreadRunning.raw()).putb("cRun", f.m_compressedFileThreadRunning.raw());
    o.putb("cfOpen", f.m_compressedFile.m_file.is_open());
    o.put("objCount", (long) f.currentObjectCount.raw()).put("uncSize", (long) f.currentUncompressedFileSize);
    o.raw("delivered", jarr(S.delivered.begin(), S.delivered.end(), [](long v) { return jint(v); }));
    o.puts("stA", tstate(S, 0)).puts("stU", tstate(S, 1)).puts("stC", tstate(S, 2));
    return o.str();
}

static void start_session(Session & S, const Scenario & sc) {
    vsched::reset();
    S.delivered.clear();
    S.file = new File;
    S.file->m_uncompressedFile.setBufferSize(sc.B);
    S.file->m_readWriteQueue.setBufferSize((uint32_t) sc.Q);
    vsched::set_untracked(&S.file->m_compressedFile.m_mutex);
    if (sc.post) vsched::set_post_unlock(&S.file->m_readWriteQueue.m_mutex);
    Session * sp = &S;
    const Scenario * scp = &sc;
    S.app = vsched::spawn([sp, scp] {
        File & f = *sp->file;
        f.open(scp->filename.c_str(), std::ios_base::in);
        for (long n = 0; scp->nreads < 0 || n < scp->nreads; n++) {
            ObjectHeaderBase * o = f.read();
            sp->delivered.push_back(o ? get_id(o) : 0);
            if (!o) break;
            delete o;
        }
        f.close();
    });
}

// run everything that can run (uncompared); returns false on a step budget overrun
static bool drain(long budget) {
    for (;;) {
        bool any = false;
        for (int t = 0; t < vsched::nthreads(); t++)
            if (vsched::runnable(t)) {
                vsched::step(t);
                any = true;
                if (--budget <= 0) return false;
            }
        if (!any) return true;
    }
}

// returns "" when everything finished, else a verdict
static std::string finish_session(Session & S, long budget) {
    std::string verdict;
    if (!drain(budget)) verdict = "livelock";
    else if (!vsched::all_finished()) verdict = "deadlock";
    if (!verdict.empty()) {
        // release whatever is stuck so that the process can go on; the File is leaked
        File & f = *S.file;
        f.m_compressedFileThreadRunning.store(false);
        f.m_uncompressedFileThreadRunning.store(false);
        f.m_uncompressedFile.abort();
        f.m_readWriteQueue.abort();
        f.m_uncompressedFile.setFileSize(0);
        f.m_readWriteQueue.setFileSize(0);
        drain(budget);
    }
    if (vsched::all_finished()) delete S.file;
    S.file = nullptr;
    return verdict;
}

int main(int argc, char ** argv) {
    if (argc < 3) return 2;
    std::string mode = argv[1];
    std::vector<Scenario> scs = load_scenarios(argv[2]);
    std::string dir = std::string(argv[2]) + ".d";
    std::string mk = "mkdir -p '" + dir + "'";
    if (system(mk.c_str()) != 0) return 2;
    std::map<std::string, Scenario *> byname;
    for (auto & s : scs) { build(s, dir, mode == "describe"); byname[s.name] = &s; }

    if (mode == "describe") {
        for (auto & s : scs) printf("DESC %s\n", describe(s).c_str());
        return 0;
    }
    if (mode == "replay") {
        std::vector<PPath> paths = load_paths(argv[3]);
        RunStats st;
        int hangs = 0;
        for (size_t pi = 0; pi < paths.size(); pi++) {
            const PPath & p = paths[pi];
            Scenario * sc = byname[p.init.at(1)];
            if (!sc) { fprintf(stderr, "unknown scenario %s\n", p.init.at(1).c_str()); return 2; }
            Session S;
            start_session(S, *sc);
            st.paths++;
            bool bad = false;
            std::string got = project(S);
            if (got != p.initExpect) { st.mismatch(pi, -1, "init " + sc->name, p.initExpect, got); bad = true; }
            for (size_t si = 0; !bad && si < p.steps.size(); si++) {
                const PStep & s = p.steps[si];
                const std::string & t = s.act.at(0);
                if (t == "spur") {       // spurious wake-up of the thread named in the argument
                    const std::string & w = s.act.at(1);
                    vsched::spurious_wake(w == "A" ? 0 : w == "U" ? 1 : 2);
                    st.steps++;
                    got = project(S);
                    if (got != s.expect) { st.mismatch(pi, si, sc->name + " " + join_words(s.act), s.expect, got); bad = true; }
                    continue;
                }
                int tid = t == "A" ? 0 : t == "U" ? 1 : 2;
                if (!vsched::runnable(tid)) {
                    st.mismatch(pi, si, sc->name + " " + join_words(s.act), "\"thread can step\"", project(S));
                    bad = true;
                    break;
                }
                std::string before = got;
                vsched::step(tid);
                st.steps++;
                got = project(S);
                // tolerate extra invisible steps of the implementation (e.g. an added observer call):
                // a step that changes nothing observable where the spec expects a change is retried
                for (int extra = 0; extra < 3 && got != s.expect && got == before && vsched::runnable(tid); extra++) {
                    vsched::step(tid);
                    got = project(S);
                }
                if (got != s.expect) { st.mismatch(pi, si, sc->name + " " + join_words(s.act), s.expect, got); bad = true; }
            }
            std::string v = finish_session(S, bad ? 20000 : 200000);
            if (!bad && !v.empty())
                st.mismatch(pi, p.steps.size(), sc->name + " drain", "\"session terminates\"", "\"" + v + "\"");
            if (!v.empty() && ++hangs >= 3) break;      // every further path would burn its step budget as well
        }
        vsched::reset();
        st.print("rsession");
        return 0;
    }
    if (mode == "weak") {
        // drv_* weak <scenarios> <paths> <out>: the thread sequence of every path is used as a schedule (hints);
        // what is recorded is the sequence of DISTINCT projections of the real state (one line per execution).
        std::vector<PPath> paths = load_paths(argv[3]);
        FILE * out = fopen(argv[4], "w");
        long n = 0, hangs = 0;
        std::string firstHang;
        for (size_t pi = 0; pi < paths.size() && hangs < 3; pi++) {
            const PPath & p = paths[pi];
            Scenario * sc = byname[p.init.at(1)];
            if (!sc) return 2;
            Session S;
            start_session(S, *sc);
            std::vector<std::string> steps;
            steps.push_back(project(S));
            auto note = [&] { std::string g = project(S); if (g != steps.back()) steps.push_back(g); };
            for (size_t si = 0; si < p.steps.size(); si++) {
                const std::string & t = p.steps[si].act.at(0);
                if (t == "spur") {
                    const std::string & w = p.steps[si].act.at(1);
                    vsched::spurious_wake(w == "A" ? 0 : w == "U" ? 1 : 2);
                    note();
                    continue;
                }
                int tid = t == "A" ? 0 : t == "U" ? 1 : 2;
                if (tid < vsched::nthreads() && vsched::runnable(tid)) { vsched::step(tid); note(); }
            }
            long budget = 300000;
            std::string verdict;
            for (;;) {
                bool any = false;
                for (int t = 0; t < vsched::nthreads(); t++)
                    if (vsched::runnable(t)) { vsched::step(t); note(); any = true; if (--budget <= 0) break; }
                if (budget <= 0) { verdict = "livelock"; break; }
                if (!any) { verdict = vsched::all_finished() ? "" : "deadlock"; break; }
            }
            fprintf(out, "{\"scen\":\"%s\",\"steps\":%s}\n", sc->name.c_str(),
                    jarr(steps.begin(), steps.end(), [](const std::string & x) { return x; }).c_str());
            n++;
            if (!verdict.empty()) {
                hangs++;
                if (firstHang.empty()) firstHang = sc->name + ": " + verdict + " at " + steps.back();
            }
            finish_session(S, 20000);
        }
        fclose(out);
        vsched::reset();
        JObj o;
        o.puts("driver", "session_weak").put("paths", n).put("mismatches", hangs);
        if (!firstHang.empty()) {
            std::string d;
            for (char c : firstHang) d += (c == '"' || c == '\\') ? '\'' : c;
            o.puts("first", d);
        }
        printf("RESULT %s\n", o.str().c_str());
        return 0;
    }
    if (mode == "trunc") {
        // drv_rsession trunc <scenarios> <seed> [<from> <to>]: every truncation offset of every scenario's file
        unsigned long seed = strtoul(argv[3], nullptr, 10);
        std::mt19937_64 rng(seed);
        long total = 0;
        for (auto & sc : scs) {
            long from = argc > 5 ? atol(argv[4]) : 0, to = argc > 5 ? atol(argv[5]) : (long) sc.filebytes.size();
            if (to > (long) sc.filebytes.size()) to = (long) sc.filebytes.size();
            Scenario cutsc = sc;
            cutsc.nreads = -1;
            cutsc.filename = dir + "/" + sc.name + "." + std::to_string((long) getpid()) + ".cut.blf";
            for (long T = from; T <= to; T++) {
                std::vector<uint8_t> b(sc.filebytes.begin(), sc.filebytes.begin() + T);
                kit::write_file(cutsc.filename, b);
                vsched::reset();
                Session S;
                S.file = new File;
                S.file->m_uncompressedFile.setBufferSize(cutsc.B);
                S.file->m_readWriteQueue.setBufferSize((uint32_t) cutsc.Q);
                vsched::set_untracked(&S.file->m_compressedFile.m_mutex);
                Session * sp = &S;
                const Scenario * scp = &cutsc;
                bool threw = false, closed = false, eofOk = true;
                vsched::spawn([&, sp, scp] {
                    File & f = *sp->file;
                    try {
                        f.open(scp->filename.c_str(), std::ios_base::in);
                    } catch (Vector::BLF::Exception &) {
                        threw = true;
                    }
                    if (!threw) {
                        for (;;) {
                            ObjectHeaderBase * o = f.read();
                            if (!o) break;
                            sp->delivered.push_back(get_id(o));
                            delete o;
                        }
                        eofOk = f.eof() && !f.good();
                    }
                    f.close();
                    closed = true;
                });
                long budget = 400000;
                std::string verdict;
                for (;;) {
                    std::vector<int> run;
                    for (int t = 0; t < vsched::nthreads(); t++)
                        if (vsched::runnable(t)) run.push_back(t);
                    if (run.empty()) { verdict = vsched::all_finished() ? "ok" : "deadlock"; break; }
                    int t = run[rng() % run.size()];
                    long burst = 1 + (long) (rng() % 32);
                    for (long bb = 0; bb < burst && vsched::runnable(t); bb++) { vsched::step(t); if (--budget <= 0) break; }
                    if (budget <= 0) { verdict = "livelock"; break; }
                }
                JObj o;
                o.puts("name", sc.name).put("T", T).putb("throws", threw).puts("verdict", verdict).putb("closed", closed).putb("eofOk", eofOk);
                o.raw("ids", jarr(S.delivered.begin(), S.delivered.end(), [](long v) { return jint(v); }));
                printf("TRUNC %s\n", o.str().c_str());
                total++;
                finish_session(S, 100000);
            }
            unlink(cutsc.filename.c_str());
        }
        vsched::reset();
        JObj o;
        o.puts("driver", "rsession_trunc").put("paths", total);
        printf("RESULT %s\n", o.str().c_str());
        return 0;
    }
    if (mode == "hostile") {
        // drv_rsession hostile <scenarios> <seed> <casefile>: each line of casefile: <scenario> <kind> <a> <b>
        //   sub off val | w16 off val | w32 off val | zfill off len | cut n 0 | dup off len | del off len | none 0 0
        unsigned long seed = strtoul(argv[3], nullptr, 10);
        std::ifstream cf(argv[4]);
        std::string scn, kind;
        long a, b;
        long total = 0, bad = 0;
        while (cf >> scn >> kind >> a >> b) {
            Scenario * base = byname[scn];
            if (!base) continue;
            std::vector<uint8_t> f = base->filebytes;
            if (kind == "sub" && a < (long) f.size()) f[(size_t) a] = (uint8_t) b;
            else if (kind == "w16" && a + 2 <= (long) f.size()) kit::wr16(f, (size_t) a, (uint16_t) b);
            else if (kind == "w32" && a + 4 <= (long) f.size()) kit::wr32(f, (size_t) a, (uint32_t) b);
            else if (kind == "zfill" && a + b <= (long) f.size()) std::fill(f.begin() + a, f.begin() + a + b, (uint8_t) 0);
            else if (kind == "cut" && a <= (long) f.size()) f.resize((size_t) a);
            else if (kind == "dup" && a + b <= (long) f.size()) f.insert(f.begin() + a, f.begin() + a, f.begin() + a + b);
            else if (kind == "del" && a + b <= (long) f.size()) f.erase(f.begin() + a, f.begin() + a + b);
            total++;
            fflush(stdout);
            pid_t pid = fork();
            if (pid == 0) {
                alarm(120);
                Scenario sc = *base;
                sc.nreads = -1;
                sc.filename = dir + "/h_" + std::to_string((long) getpid()) + ".blf";
                kit::write_file(sc.filename, f);
                std::mt19937_64 rng(seed + (unsigned long) total);
                vsched::reset();
                Session S;
                S.file = new File;
                vsched::set_untracked(&S.file->m_compressedFile.m_mutex);
                Session * sp = &S;
                const Scenario * scp = &sc;
                bool threw = false, foreign = false, closed = false;
                vsched::spawn([&, sp, scp] {
                    File & fl = *sp->file;
                    try {
                        fl.open(scp->filename.c_str(), std::ios_base::in);
                    } catch (Vector::BLF::Exception &) {
                        threw = true;
                    } catch (...) {
                        foreign = true;
                    }
                    if (!threw && !foreign) {
                        for (long n = 0; n < 100000; n++) {
                            ObjectHeaderBase * o = fl.read();
                            if (!o) break;
                            sp->delivered.push_back(get_id(o));
                            delete o;
                        }
                    }
                    fl.close();
                    closed = true;
                });
                long budget = 3000000;
                std::string verdict;
                for (;;) {
                    std::vector<int> run;
                    for (int t = 0; t < vsched::nthreads(); t++)
                        if (vsched::runnable(t)) run.push_back(t);
                    if (run.empty()) { verdict = vsched::all_finished() ? "ok" : "deadlock"; break; }
                    int t = run[rng() % run.size()];
                    long burst = 1 + (long) (rng() % 64);
                    for (long bb = 0; bb < burst && vsched::runnable(t); bb++) { vsched::step(t); if (--budget <= 0) break; }
                    if (budget <= 0) { verdict = "livelock"; break; }
                }
                unlink(sc.filename.c_str());
                bool ok = verdict == "ok" && closed && !foreign && S.delivered.size() < 100000;
                if (!ok) {
                    JObj o;
                    o.puts("scen", scn).puts("kind", kind).put("a", a).put("b", b).puts("verdict", verdict).putb("closed", closed)
                        .putb("foreign", foreign).put("objects", (long) S.delivered.size());
                    printf("HOST %s\n", o.str().c_str());
                    fflush(stdout);
                }
                _exit(ok ? 0 : 3);
            }
            int status = 0;
            waitpid(pid, &status, 0);
            if (!(WIFEXITED(status) && (WEXITSTATUS(status) == 0 || WEXITSTATUS(status) == 3))) {
                JObj o;
                o.puts("scen", scn).puts("kind", kind).put("a", a).put("b", b).puts("verdict", "crash").put("status", (long) status);
                printf("HOST %s\n", o.str().c_str());
            }
            if (!(WIFEXITED(status) && WEXITSTATUS(status) == 0)) bad++;
        }
        JObj o;
        o.puts("driver", "rsession_hostile").put("paths", total).put("mismatches", bad);
        printf("RESULT %s\n", o.str().c_str());
        return 0;
    }
    if (mode == "random") {
        // drv_rsession random <scenarios> <seed> <runs> [tracefile]
        unsigned long seed = strtoul(argv[3], nullptr, 10);
        long runs = atol(argv[4]);
        FILE * tf = argc > 5 ? fopen(argv[5], "w") : nullptr;
        std::mt19937_64 rng(seed);
        for (auto & sc : scs) {
            describe(sc);
            long ok = 0, deadlock = 0, livelock = 0, steps = 0, maxHeld = 0, maxQ = 0, wrongDelivery = 0;
            std::string firstBad;
            for (long r = 0; r < runs; r++) {
                Session S;
                start_session(S, sc);
                if (tf) fprintf(tf, "{\"e\":\"Reset\",\"scen\":\"%s\",\"pt\":%s}\n", sc.name.c_str(), project(S).c_str());
                // PCT-like: random priorities, changed at a few random points
                long budget = getenv("VERIF_BUDGET") ? atol(getenv("VERIF_BUDGET")) : 2000000;
                std::string verdict;
                std::vector<int> sched;
                for (;;) {
                    std::vector<int> run;
                    for (int t = 0; t < vsched::nthreads(); t++)
                        if (vsched::runnable(t)) run.push_back(t);
                    if (run.empty()) { verdict = vsched::all_finished() ? "" : "deadlock"; break; }
                    int t = run[rng() % run.size()];
                    // run the chosen thread for a random burst (keeps long stretches of one thread likely)
                    long burst = 1 + (long) (rng() % ((rng() % 8 == 0) ? 5000 : 64));   // occasionally starve the others
                    for (long b = 0; b < burst && vsched::runnable(t); b++) {
                        vsched::step(t);
                        steps++;
                        {
                            long held = 0;
                            for (auto & c : S.file->m_uncompressedFile.m_data)      // declared size, or what is really stored if that is more
                                held += (long) std::max((size_t) c->uncompressedFileSize, std::max(c->uncompressedFile.size(), c->compressedFile.size()));
                            if (held > maxHeld) maxHeld = held;
                            long ql = (long) S.file->m_readWriteQueue.m_queue.size();
                            if (ql > maxQ) maxQ = ql;
                        }
                        if (sched.size() < 4000) sched.push_back(t);
                        if (tf) fprintf(tf, "{\"e\":\"%s\",\"pt\":%s}\n", t == 0 ? "A" : t == 1 ? "U" : "C", project(S).c_str());
                        if (--budget <= 0) break;
                    }
                    if (budget <= 0) { verdict = "livelock"; break; }
                }
                if (verdict.empty()) {
                    ok++;
                    // result of the session: a complete read delivers exactly the expected ids, then nullptr;
                    // an early close delivers a prefix
                    std::vector<long> want = sc.expected;
                    if (sc.nreads >= 0 && (long) want.size() > sc.nreads) want.resize((size_t) sc.nreads);
                    else want.push_back(0);
                    if (S.delivered != want) {
                        wrongDelivery++;
                        if (firstBad.empty()) {
                            JObj o;
                            o.puts("verdict", "wrong-delivery").put("run", r);
                            o.raw("delivered", jarr(S.delivered.begin(), S.delivered.end(), [](long v) { return jint(v); }));
                            firstBad = o.str();
                        }
                    }
                } else {
                    if (verdict == "deadlock") deadlock++; else livelock++;
                    if (firstBad.empty()) {
                        JObj o;
                        o.puts("verdict", verdict).put("run", r).raw("state", project(S));
                        o.raw("schedule", jarr(sched.begin(), sched.end(), [](int v) { return jint(v); }));
                        firstBad = o.str();
                    }
                }
                finish_session(S, 200000);
            }
            JObj o;
            o.puts("driver", "rsession_random").puts("scen", sc.name).put("runs", runs).put("ok", ok)
                .put("deadlock", deadlock).put("livelock", livelock).put("steps", steps)
                .put("maxHeld", maxHeld).put("maxQ", maxQ).put("wrongDelivery", wrongDelivery)
                .put("containers", (long) sc.conts.size()).put("streamBytes", (long) sc.stream.size());
            if (!firstBad.empty()) o.raw("first", firstBad);
            printf("RESULT %s\n", o.str().c_str());
        }
        if (tf) fclose(tf);
        vsched::reset();
        return 0;
    }
    return 2;
}
