// Implementation of the controlled scheduler (see vsync.h).  Compiled WITHOUT
// the force-include, i.e. with the genuine std::mutex / std::thread.
#define VSYNC_IMPLEMENTATION
#include "vsync.h"

#include <condition_variable>
#include <mutex>
#include <thread>

namespace vsched {

struct ThreadRec {
    int id = -1;
    State state = S_RUNNABLE;
    Kind kind = K_START;
    const void * obj = nullptr;
    int joinTarget = -1;
    long steps = 0;
    bool go = false;                 // baton handed to this thread
    bool notified = false;           // a notify was issued in the current critical section
    bool timedWait = false;          // parked in a timed condition-variable wait: it may time out at any moment,
                                     // i.e. it is steppable although nobody notified it
    bool woken = false;              // the current wait was ended by a notify (not by a time-out / spurious wake-up)
    long timeoutEpoch = -1;          // g_epoch when this thread's time-out last fired (a time-out fires at most once
                                     // between two ordinary steps: re-armed waits that change nothing are quiescent)
    std::condition_variable cv;
    std::thread real;
    std::function<void()> fn;
};

static std::mutex G;                               // protects everything below
static std::condition_variable ctl_cv;             // the controller waits here
// both vectors are never destroyed: threads of a session that hangs stay parked on their condition variables, and
// destroying those at process exit blocks for ever (pthread_cond_destroy waits for the waiters) - a driver that has
// already printed its verdict must be able to exit
static std::vector<std::unique_ptr<ThreadRec>> & T = *new std::vector<std::unique_ptr<ThreadRec>>;   // threads of the current session
static std::vector<std::unique_ptr<ThreadRec>> & abandoned = *new std::vector<std::unique_ptr<ThreadRec>>;
static int current = -1;                           // id of the running scheduled thread, -1 = controller
static std::set<const void *> untracked;
static std::set<const void *> postunlock;
static long g_steps = 0;
static long g_epoch = 0;                           // number of ordinary (non-time-out) steps so far
static thread_local ThreadRec * tl_self = nullptr;

int self_id() { return tl_self ? tl_self->id : -1; }

// park the calling scheduled thread (G held by caller via lk) and give control back
static void park(std::unique_lock<std::mutex> & lk, ThreadRec * me) {
    current = -1;
    ctl_cv.notify_all();
    me->cv.wait(lk, [me] { return me->go; });
    me->go = false;
    current = me->id;
}

void yield_point(Kind k, const void * obj) {
    ThreadRec * me = tl_self;
    if (!me) return;
    std::unique_lock<std::mutex> lk(G);
    me->kind = k;
    me->obj = obj;
    me->state = S_RUNNABLE;
    park(lk, me);
}

void app_point() { yield_point(K_APP, nullptr); }

bool block_on_cv(const void * cv, bool timed) {
    ThreadRec * me = tl_self;
    std::unique_lock<std::mutex> lk(G);
    me->kind = K_CVWAIT;
    me->obj = cv;
    me->state = S_BLOCKED_CV;
    me->timedWait = timed;
    me->woken = false;
    park(lk, me);
    me->timedWait = false;
    return me->woken;
}

void block_on_mutex(const void * m) {
    ThreadRec * me = tl_self;
    std::unique_lock<std::mutex> lk(G);
    me->kind = K_MUTEXWAIT;
    me->obj = m;
    me->state = S_BLOCKED_MUTEX;
    park(lk, me);
}

void mutex_released(const void * m) {
    std::unique_lock<std::mutex> lk(G);
    for (auto & t : T)
        if (t->state == S_BLOCKED_MUTEX && t->obj == m) t->state = S_RUNNABLE;
}

void notify_cv(const void * cv, bool all) {
    std::unique_lock<std::mutex> lk(G);
    for (auto & t : T)
        if (t->state == S_BLOCKED_CV && t->obj == cv) {
            t->state = S_RUNNABLE;
            t->kind = K_WAKE;
            t->woken = true;
            if (!all) break;
        }
}

bool note_notify() {
    ThreadRec * me = tl_self;
    if (!me) return false;
    bool o = me->notified;
    me->notified = true;
    return o;
}

bool take_notify_flag() {
    ThreadRec * me = tl_self;
    if (!me) return false;
    bool o = me->notified;
    me->notified = false;
    return o;
}

bool is_untracked(const void * m) {
    std::unique_lock<std::mutex> lk(G);
    return untracked.count(m) != 0;
}
bool wants_post_unlock(const void * m) {
    std::unique_lock<std::mutex> lk(G);
    return postunlock.count(m) != 0;
}
void set_untracked(const void * m) {
    std::unique_lock<std::mutex> lk(G);
    untracked.insert(m);
}
void set_post_unlock(const void * m) {
    std::unique_lock<std::mutex> lk(G);
    postunlock.insert(m);
}

static void thread_main(ThreadRec * me) {
    tl_self = me;
    {
        std::unique_lock<std::mutex> lk(G);
        me->cv.wait(lk, [me] { return me->go; });
        me->go = false;
        current = me->id;
    }
    try {
        me->fn();
    } catch (...) {
        fprintf(stderr, "vsync: exception escaped scheduled thread %d\n", me->id);
        // mirror std::thread: an escaping exception terminates the process
        std::terminate();
    }
    std::unique_lock<std::mutex> lk(G);
    me->state = S_FINISHED;
    me->kind = K_FINISHED;
    for (auto & t : T)
        if (t->state == S_BLOCKED_JOIN && t->joinTarget == me->id) t->state = S_RUNNABLE;
    current = -1;
    ctl_cv.notify_all();
}

static int create_locked(std::function<void()> fn) {
    std::unique_ptr<ThreadRec> r(new ThreadRec);
    r->id = (int) T.size();
    r->fn = std::move(fn);
    ThreadRec * p = r.get();
    T.push_back(std::move(r));
    p->real = std::thread(thread_main, p);
    return p->id;
}

int thread_create(std::function<void()> fn) {
    std::unique_lock<std::mutex> lk(G);
    return create_locked(std::move(fn));
}

int spawn(std::function<void()> fn) {
    std::unique_lock<std::mutex> lk(G);
    return create_locked(std::move(fn));
}

void thread_join(int tid) {
    ThreadRec * me = tl_self;
    if (!me) {
        // unscheduled caller: only legal when the target has finished
        std::unique_lock<std::mutex> lk(G);
        if (T.at(tid)->state != S_FINISHED) {
            fprintf(stderr, "vsync: unscheduled join on a running thread\n");
            abort();
        }
        return;
    }
    std::unique_lock<std::mutex> lk(G);
    me->kind = K_JOIN;
    me->obj = nullptr;
    me->joinTarget = tid;
    me->state = (T.at(tid)->state == S_FINISHED) ? S_RUNNABLE : S_BLOCKED_JOIN;
    park(lk, me);
    me->joinTarget = -1;
}

int nthreads() {
    std::unique_lock<std::mutex> lk(G);
    return (int) T.size();
}

Info info(int tid) {
    std::unique_lock<std::mutex> lk(G);
    ThreadRec * t = T.at(tid).get();
    return Info{t->id, t->state, t->kind, t->obj, t->joinTarget, t->steps};
}

bool runnable(int tid) {
    std::unique_lock<std::mutex> lk(G);
    if (tid < 0 || tid >= (int) T.size()) return false;
    // a thread in a timed wait can always take a step: its time-out
    return T[tid]->state == S_RUNNABLE ||
           (T[tid]->state == S_BLOCKED_CV && T[tid]->timedWait && T[tid]->timeoutEpoch != g_epoch);
}

bool all_finished() {
    std::unique_lock<std::mutex> lk(G);
    for (auto & t : T)
        if (t->state != S_FINISHED) return false;
    return true;
}

bool any_runnable() {
    std::unique_lock<std::mutex> lk(G);
    for (auto & t : T)
        if (t->state == S_RUNNABLE || (t->state == S_BLOCKED_CV && t->timedWait && t->timeoutEpoch != g_epoch)) return true;
    return false;
}

void step(int tid) {
    std::unique_lock<std::mutex> lk(G);
    ThreadRec * t = T.at(tid).get();
    if (t->state == S_BLOCKED_CV && t->timedWait) {
        // the time-out of a timed wait fires: the wait ends without a notify
        t->state = S_RUNNABLE;
        t->kind = K_WAKE;
        t->timeoutEpoch = g_epoch;
    } else {
        g_epoch++;
    }
    if (t->state != S_RUNNABLE) {
        fprintf(stderr, "vsync: step(%d) on a thread that is not runnable (state %d)\n", tid, (int) t->state);
        abort();
    }
    t->steps++;
    g_steps++;
    t->go = true;
    current = tid;
    t->cv.notify_all();
    ctl_cv.wait(lk, [] { return current == -1; });
}

long total_steps() { return g_steps; }

void spurious_wake(int tid) {
    std::unique_lock<std::mutex> lk(G);
    ThreadRec * t = T.at(tid).get();
    if (t->state == S_BLOCKED_CV) {
        t->state = S_RUNNABLE;
        t->kind = K_WAKE;
    }
}

void reset() {
    std::unique_lock<std::mutex> lk(G);
    for (auto & t : T) {
        if (t->state == S_FINISHED) {
            lk.unlock();
            if (t->real.joinable()) t->real.join();
            lk.lock();
        } else {
            // blocked forever (deadlock verdict) — leave the OS thread parked
            t->real.detach();
            t->id = -1000;           // no longer matches any join target / cv wake-up
            t->obj = nullptr;
            abandoned.push_back(std::move(t));
        }
    }
    T.clear();
    untracked.clear();
    postunlock.clear();
}

} // namespace vsched
