// reflect.h — visitor interface for the generated member walk (reflect_gen.h) plus the visitors the
// codec drivers need: randomise scalars, size payload containers, compare two objects, dump to JSON.
#pragma once
#include <cstdint>
#include <cstring>
#include <functional>
#include <random>
#include <string>
#include <vector>

namespace refl {

struct Visitor {
    virtual ~Visitor() = default;
    virtual void u(const std::string & name, void * p, int bytes, bool isSigned) = 0;
    virtual void f64(const std::string & name, double & d) = 0;
    virtual void b(const std::string & name, bool & v) = 0;
    virtual void str(const std::string & name, std::string & s) = 0;
    virtual void u16str(const std::string & name, std::u16string & s) = 0;
    virtual void vec8(const std::string & name, std::vector<uint8_t> & v) = 0;
    virtual void vec64(const std::string & name, std::vector<int64_t> & v) = 0;
    virtual void arr(const std::string & name, void * p, size_t n, int elemBytes) = 0;
};

inline uint64_t get_u(const void * p, int bytes) {
    uint64_t v = 0;
    memcpy(&v, p, (size_t) bytes);
    return v;
}
inline void set_u(void * p, int bytes, uint64_t v) { memcpy(p, &v, (size_t) bytes); }

// names of the base-header fields the encoder owns (never randomised / compared as payload)
inline bool is_header_field(const std::string & n) {
    return n == "signature" || n == "headerSize" || n == "headerVersion" || n == "objectSize" || n == "objectType";
}

// ---- fill every scalar with seeded values (boundary values with some probability) ----
struct Randomizer : Visitor {
    std::mt19937_64 & rng;
    bool smallSelectors;     // small values for 8/16-bit scalars (API versions, variant selectors)
    explicit Randomizer(std::mt19937_64 & r, bool small = false) : rng(r), smallSelectors(small) {}
    uint64_t pick(int bytes) {
        uint64_t max = bytes >= 8 ? ~0ull : ((1ull << (8 * bytes)) - 1);
        switch (rng() % 8) {
        case 0: return 0;
        case 1: return max;
        case 2: return max >> 1;
        case 3: return (max >> 1) + 1;
        case 4: return 1;
        default: return rng() & max;
        }
    }
    void u(const std::string & name, void * p, int bytes, bool) override {
        if (is_header_field(name)) return;
        if (smallSelectors && bytes <= 2 && (rng() % 2)) set_u(p, bytes, rng() % 6);
        else set_u(p, bytes, pick(bytes));
    }
    void f64(const std::string &, double & d) override {
        static const double vals[] = {0.0, -0.0, 1.5, -1e300, 1e-300, 123456.789};
        d = vals[rng() % 6];
    }
    void b(const std::string &, bool & v) override { v = rng() % 2; }
    void str(const std::string &, std::string & s) override { for (auto & c : s) c = (char) (rng() % 255 + 1); }
    void u16str(const std::string &, std::u16string & s) override { for (auto & c : s) c = (char16_t) (rng() % 0xfffe + 1); }
    void vec8(const std::string &, std::vector<uint8_t> & v) override { for (auto & c : v) c = (uint8_t) rng(); }
    void vec64(const std::string &, std::vector<int64_t> & v) override { for (auto & c : v) c = (int64_t) rng(); }
    void arr(const std::string &, void * p, size_t n, int eb) override {
        uint8_t * q = (uint8_t *) p;
        for (size_t i = 0; i < n * (size_t) eb; i++) q[i] = (uint8_t) rng();
    }
};

// ---- resize payload containers: every container gets lengths[i % size] (in elements) ----
struct Sizer : Visitor {
    std::vector<size_t> lengths;
    size_t i = 0;
    std::vector<std::string> names;       // containers met, in order
    explicit Sizer(std::vector<size_t> l) : lengths(std::move(l)) {}
    size_t next() { return lengths.empty() ? 0 : lengths[i++ % lengths.size()]; }
    void u(const std::string &, void *, int, bool) override {}
    void f64(const std::string &, double &) override {}
    void b(const std::string &, bool &) override {}
    void str(const std::string & n, std::string & s) override { names.push_back(n); s.assign(next(), 'a'); }
    void u16str(const std::string & n, std::u16string & s) override { names.push_back(n); s.assign(next(), u'b'); }
    void vec8(const std::string & n, std::vector<uint8_t> & v) override { names.push_back(n); v.assign(next(), 0x5a); }
    void vec64(const std::string & n, std::vector<int64_t> & v) override { names.push_back(n); v.assign(next(), 7); }
    void arr(const std::string &, void *, size_t, int) override {}
};

// ---- dump to canonical text  name=value;... (used for comparison and for reports) ----
struct Dumper : Visitor {
    std::string out;
    bool skipHeader;
    explicit Dumper(bool skip = false) : skipHeader(skip) {}
    void put(const std::string & n, const std::string & v) { out += n + "=" + v + ";"; }
    static std::string hex(const void * p, size_t n) {
        static const char * d = "0123456789abcdef";
        std::string s;
        const uint8_t * q = (const uint8_t *) p;
        if (n > 48) {          // long payloads: length + fnv hash
            uint64_t h = 1469598103934665603ull;
            for (size_t i = 0; i < n; i++) { h ^= q[i]; h *= 1099511628211ull; }
            return "len" + std::to_string(n) + "#" + std::to_string(h);
        }
        for (size_t i = 0; i < n; i++) { s += d[q[i] >> 4]; s += d[q[i] & 15]; }
        return s;
    }
    void u(const std::string & n, void * p, int bytes, bool) override {
        if (skipHeader && is_header_field(n)) return;
        put(n, std::to_string(get_u(p, bytes)));
    }
    void f64(const std::string & n, double & d) override { put(n, hex(&d, 8)); }
    void b(const std::string & n, bool & v) override { put(n, v ? "1" : "0"); }
    void str(const std::string & n, std::string & s) override { put(n, hex(s.data(), s.size())); }
    void u16str(const std::string & n, std::u16string & s) override { put(n, hex(s.data(), s.size() * 2)); }
    void vec8(const std::string & n, std::vector<uint8_t> & v) override { put(n, hex(v.data(), v.size())); }
    void vec64(const std::string & n, std::vector<int64_t> & v) override { put(n, hex(v.data(), v.size() * 8)); }
    void arr(const std::string & n, void * p, size_t k, int eb) override { put(n, hex(p, k * (size_t) eb)); }
};

// ---- raw locations of all fixed-size members (scalars, bools, doubles, arrays) ----
struct Locator : Visitor {
    struct Loc { std::string name; uint8_t * p; size_t n; bool isBool = false; };
    // change the member to another VALID value of its type (a bool only has two)
    static void flip(const Loc & L, uint8_t mask) {
        if (L.isBool) { L.p[0] = (uint8_t) (L.p[0] ? 0 : 1); return; }
        for (size_t i = 0; i < L.n; i++) L.p[i] ^= mask;
    }
    std::vector<Loc> locs;
    void u(const std::string & n, void * p, int bytes, bool) override { if (!is_header_field(n)) locs.push_back({n, (uint8_t *) p, (size_t) bytes}); }
    void f64(const std::string & n, double & d) override { locs.push_back({n, (uint8_t *) &d, 8}); }
    void b(const std::string & n, bool & v) override { locs.push_back({n, (uint8_t *) &v, 1, true}); }
    void str(const std::string &, std::string &) override {}
    void u16str(const std::string &, std::u16string &) override {}
    void vec8(const std::string &, std::vector<uint8_t> &) override {}
    void vec64(const std::string &, std::vector<int64_t> &) override {}
    void arr(const std::string & n, void * p, size_t k, int eb) override { locs.push_back({n, (uint8_t *) p, k * (size_t) eb}); }
};

// ---- payload containers: content as bytes, and a way to perturb them ----
struct Containers : Visitor {
    struct C { std::string name; std::string bytes; std::function<void()> grow; std::function<void()> shrink; };
    std::vector<C> cs;
    void u(const std::string &, void *, int, bool) override {}
    void f64(const std::string &, double &) override {}
    void b(const std::string &, bool &) override {}
    void arr(const std::string &, void *, size_t, int) override {}
    void str(const std::string & n, std::string & s) override {
        cs.push_back({n, s, [&s] { s.push_back('q'); }, [&s] { s.pop_back(); }});
    }
    void u16str(const std::string & n, std::u16string & s) override {
        cs.push_back({n, std::string((const char *) s.data(), s.size() * 2), [&s] { s.push_back(u'q'); }, [&s] { s.pop_back(); }});
    }
    void vec8(const std::string & n, std::vector<uint8_t> & v) override {
        cs.push_back({n, std::string((const char *) v.data(), v.size()), [&v] { v.push_back(0x71); }, [&v] { v.pop_back(); }});
    }
    void vec64(const std::string & n, std::vector<int64_t> & v) override {
        cs.push_back({n, std::string((const char *) v.data(), v.size() * 8), [&v] { v.push_back(0x71); }, [&v] { v.pop_back(); }});
    }
};

// ---- container sizes only ("shape") ----
struct Shape : Visitor {
    std::string out;
    void u(const std::string &, void *, int, bool) override {}
    void f64(const std::string &, double &) override {}
    void b(const std::string &, bool &) override {}
    void str(const std::string & n, std::string & s) override { out += n + ":" + std::to_string(s.size()) + ";"; }
    void u16str(const std::string & n, std::u16string & s) override { out += n + ":" + std::to_string(s.size()) + ";"; }
    void vec8(const std::string & n, std::vector<uint8_t> & v) override { out += n + ":" + std::to_string(v.size()) + ";"; }
    void vec64(const std::string & n, std::vector<int64_t> & v) override { out += n + ":" + std::to_string(v.size()) + ";"; }
    void arr(const std::string &, void *, size_t, int) override {}
};

} // namespace refl
