// M3 replay of spec/Resync.tla: ObjectHeaderBase::read on a real UncompressedFile holding
//   filler ++ "LOBJ" ++ 12 header bytes.   Input: one vector per line  "<filler letters or -> <g> <reads> <seeks> <found>"
#include <csignal>
#include <unistd.h>
#include "blfkit.h"
#include "pathrun.h"
#include <Vector/BLF/CompressedFile.h>
#include <Vector/BLF/Exceptions.h>
#include <fstream>

using namespace Vector::BLF;

static std::string g_cur;
static void on_alarm(int) {
    // the scan did not end: report and stop
    printf("RESULT {\"driver\":\"resync\",\"paths\":0,\"steps\":0,\"mismatches\":1,\"first\":{\"filler\":\"%s\",\"got\":\"scan does not terminate\"}}\n", g_cur.c_str());
    fflush(stdout);
    _exit(0);
}

int main(int argc, char ** argv) {
    if (argc < 2) return 2;
    std::ifstream f(argv[1]);
    std::string filler;
    long g, reads, seeks, found, tail;
    long n = 0, bad = 0, opdiff = 0;
    std::string first;
    signal(SIGALRM, on_alarm);
    while (f >> filler >> g >> reads >> seeks >> found >> tail) {
        if (filler == "-") filler.clear();
        g_cur = filler + (tail ? " (stream ends here)" : "");
        alarm(10);
        std::vector<uint8_t> bytes(filler.begin(), filler.end());
        if (!tail) {
            std::vector<uint8_t> obj = kit::raw_object(1, 48, 16);
            for (size_t i = 4; i < 16; i++) obj[i] = 'x';             // the spec's 12 neutral header bytes
            bytes.insert(bytes.end(), obj.begin(), obj.end());
        }
        UncompressedFile uf;
        auto lc = std::make_shared<LogContainer>();
        lc->uncompressedFile = bytes;
        lc->uncompressedFileSize = (uint32_t) bytes.size();
        uf.write(lc);
        uf.setFileSize((std::streamsize) bytes.size());
        kit::Recorder rec(uf);
        ObjectHeaderBase ohb(0, ObjectType::UNKNOWN);
        bool ok = true;
        try { ohb.read(rec); } catch (Exception &) { ok = false; }
        long nr = 0, ns = 0;
        for (auto & p : rec.ops) { if (p.first == 'r') nr++; if (p.first == 's') ns++; }
        long gg = (long) uf.m_tellg;
        // the property is about WHERE the scan ends; how many reads/seeks it takes is the implementation's
        // business (a different but correct scan must not raise an alarm) and is only counted
        // stream ends behind the filler: the scan must END - by the library's exception or with the stream
        // failed (a signature completed by stale bytes of a short read is then discarded by the caller)
        bool match = tail ? (!ok || !uf.good()) : ((ok == (found != 0)) && (!ok || gg == g + 12));
        if (ok && (nr != reads + 4 || ns != seeks)) opdiff++;
        // the same scan on the outer stream class (CompressedFile over a real std::fstream, whose seekg clears
        // eofbit): same end position / same obligation to end
        // (every filler up to length 6; longer ones only on the in-memory stream: one real file per vector is slow)
        if (filler.size() <= 6) {
            std::string path = std::string(argv[1]) + ".bin";
            { std::ofstream of(path, std::ios::binary | std::ios::trunc); of.write((const char *) bytes.data(), (std::streamsize) bytes.size()); }
            g_cur = filler + (tail ? " (file ends here)" : "") + " on CompressedFile";
            CompressedFile cf;
            cf.open(path.c_str(), std::ios_base::in | std::ios_base::binary);
            ObjectHeaderBase ohb2(0, ObjectType::UNKNOWN);
            bool ok2 = true;
            try { ohb2.read(cf); } catch (Exception &) { ok2 = false; }
            bool good2 = cf.good();
            long g2 = good2 ? (long) cf.tellg() : -1;
            bool match2 = tail ? (!ok2 || !good2) : ((ok2 == (found != 0)) && (!ok2 || g2 == g + 12));
            cf.close();
            if (!match2 && match) { match = false; gg = g2; ok = ok2; filler += " [CompressedFile]"; }
        }
        n++;
        if (!match) {
            bad++;
            if (first.empty()) {
                JObj o;
                o.puts("filler", filler).put("expected_g", g + 12).put("got_g", gg).put("expected_reads", reads + 4)
                    .put("got_reads", nr).put("expected_seeks", seeks).put("got_seeks", ns).putb("found", ok);
                first = o.str();
            }
        }
    }
    alarm(0);
    JObj o;
    o.puts("driver", "resync").put("paths", n).put("steps", n).put("mismatches", bad).put("opcount_differs", opdiff);
    if (!first.empty()) o.raw("first", first);
    printf("RESULT %s\n", o.str().c_str());
    return 0;
}
