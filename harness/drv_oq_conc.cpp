// M1 edge replay of spec/QueueConc.tla: the real ObjectQueue driven by three
// scheduled threads (producer, consumer, controller) under harness/vsync.
//   drv_oq_conc paths.txt     (configuration in each path's init line)
#include <Vector/BLF/ObjectQueue.h>

#include <fstream>
#include "pathrun.h"

using namespace Vector::BLF;

static const long INF = 1000000000;
static long inf(uint32_t v) { return v == 0xffffffffu ? INF : (long) v; }

struct Fixture {
    ObjectQueue<ObjectHeaderBase> q;
    std::vector<long> got;
    long nw = 0;
};

static std::string thread_state(Fixture & f, int tid) {
    vsched::Info i = vsched::info(tid);
    switch (i.state) {
    case vsched::S_RUNNABLE: return "run";
    case vsched::S_FINISHED: return "done";
    case vsched::S_BLOCKED_CV:
        if (i.obj == &f.q.tellgChanged) return "tellg";
        if (i.obj == &f.q.tellpChanged) return "tellp";
        return "cv?";
    case vsched::S_BLOCKED_JOIN: return "join";
    default: return "mutex";
    }
}

static std::string project(Fixture & f) {
    JObj o;
    std::vector<long> ids;
    for (ObjectHeaderBase * x : snapshot(f.q.m_queue)) ids.push_back((long) x->objectSize);
    o.putb("abort", f.q.m_abort);
    o.raw("q", jarr(ids.begin(), ids.end(), [](long v) { return jint(v); }));
    o.put("g", (long) f.q.m_tellg).put("p", (long) f.q.m_tellp).put("end", inf(f.q.m_fileSize));
    o.putb("good", f.q.m_rdstate == std::ios_base::goodbit);
    o.raw("got", jarr(f.got.begin(), f.got.end(), [](long v) { return jint(v); }));
    o.put("nw", f.nw);
    o.puts("stP", thread_state(f, 0)).puts("stC", thread_state(f, 1)).puts("stK", thread_state(f, 2));
    return o.str();
}

// M3 vector replay of spec/OQScale.tla:  drv_oq_conc scale <file>, one vector per line "<cap> <fill>"
// The queue is filled directly (fill <= cap never waits); then a scheduled producer writes one more object and a
// scheduled consumer reads one: whether the producer is held is the scheduler's exact verdict (parked on tellgChanged).
static int scale_mode(const char * file) {
    std::ifstream in(file);
    long cap, fill, n = 0;
    while (in >> cap >> fill) {
        vsched::reset();
        Fixture * f = new Fixture;
        // fill <= cap: capacity set first.  fill > cap: the capacity is lowered below the fill level afterwards
        if (fill <= cap) f->q.setBufferSize((uint32_t) cap);
        for (long i = 1; i <= fill; i++) {
            ObjectHeaderBase * o = new ObjectHeaderBase(1, ObjectType::UNKNOWN);
            o->objectSize = (uint32_t) i;
            f->q.write(o);
        }
        if (fill > cap) f->q.setBufferSize((uint32_t) cap);
        bool wrote = false;
        int P = vsched::spawn([f, fill, &wrote] {
            ObjectHeaderBase * o = new ObjectHeaderBase(1, ObjectType::UNKNOWN);
            o->objectSize = (uint32_t) (fill + 1);
            f->q.write(o);
            wrote = true;
        });
        long steps = 0;
        while (vsched::runnable(P) && steps++ < 1000) vsched::step(P);
        bool held = !wrote && thread_state(*f, P) == "tellg";
        long lenAfterWrite = (long) f->q.m_queue.size();
        JObj o;
        o.put("cap", cap).put("fill", fill).putb("held", held).put("lenAfterWrite", lenAfterWrite).puts("stP", thread_state(*f, P));
        if (held) {
            // only then is the state the one of the vector: read one object
            long ret = -1;
            int C = vsched::spawn([f, &ret] {
                ObjectHeaderBase * r = f->q.read();
                ret = r ? (long) r->objectSize : 0;
                delete r;
            });
            steps = 0;
            while (vsched::runnable(C) && steps++ < 1000) vsched::step(C);
            o.put("ret", ret).put("gAfterRead", (long) f->q.m_tellg).put("lenAfterRead", (long) f->q.m_queue.size());
            steps = 0;
            while (vsched::runnable(P) && steps++ < 1000) vsched::step(P);
            o.putb("releasedByRead", wrote);
        }
        printf("SCALE %s\n", o.str().c_str());
        // release whatever is still parked, free the objects
        f->q.abort();
        for (int k = 0; k < 2000 && !vsched::all_finished(); k++)
            for (int t = 0; t < vsched::nthreads(); t++)
                if (vsched::runnable(t)) vsched::step(t);
        if (vsched::all_finished()) {
            while (!f->q.m_queue.empty()) delete pop_oldest(f->q.m_queue);
            delete f;
        }
        n++;
    }
    vsched::reset();
    JObj r;
    r.puts("driver", "oq_scale").put("paths", n).put("steps", n).put("mismatches", 0);
    printf("RESULT %s\n", r.str().c_str());
    return 0;
}

int main(int argc, char ** argv) {
    if (argc < 2) return 2;
    if (std::string(argv[1]) == "scale") return argc > 2 ? scale_mode(argv[2]) : 2;
    std::vector<PPath> paths = load_paths(argv[1]);
    RunStats st;
    for (size_t pi = 0; pi < paths.size(); pi++) {
        const PPath & p = paths[pi];
        // P init <n> <cap> <scenario> <k>
        long N = atol(p.init.at(1).c_str()), Cap = atol(p.init.at(2).c_str());
        std::string scenario = p.init.at(3);
        long K = atol(p.init.at(4).c_str());
        vsched::reset();
        Fixture * f = new Fixture;
        f->q.setBufferSize((uint32_t) Cap);
        int P = vsched::spawn([f, N, &scenario] {
            for (long i = 1; i <= N; i++) {
                ObjectHeaderBase * o = new ObjectHeaderBase(1, ObjectType::UNKNOWN);
                o->objectSize = (uint32_t) i;
                f->q.write(o);
                f->nw = i;
            }
            if (scenario == "ends")
                f->q.setFileSize(f->q.tellp());
        });
        int C = vsched::spawn([f] {
            for (;;) {
                ObjectHeaderBase * o = f->q.read();
                f->got.push_back(o ? (long) o->objectSize : 0);
                if (!o) break;
                delete o;
            }
        });
        int Kt = vsched::spawn([f, K, &scenario] {
            if (scenario == "abort") f->q.abort();
            else if (scenario == "setsize") f->q.setFileSize((uint32_t) K);
        });
        (void) P; (void) C; (void) Kt;
        st.paths++;
        std::string got = project(*f);
        bool bad = false;
        if (got != p.initExpect) { st.mismatch(pi, -1, "init", p.initExpect, got); bad = true; }
        for (size_t si = 0; !bad && si < p.steps.size(); si++) {
            const PStep & s = p.steps[si];
            const std::string & t = s.act.at(0);
            if (t == "spur") {
                int w = s.act.at(1) == "P" ? 0 : 1;
                vsched::spurious_wake(w);
                st.steps++;
                got = project(*f);
                if (got != s.expect) { st.mismatch(pi, si, join_words(s.act), s.expect, got); bad = true; }
                continue;
            }
            int tid = t == "P" ? 0 : t == "C" ? 1 : 2;
            if (!vsched::runnable(tid)) {
                st.mismatch(pi, si, join_words(s.act), "\"thread runnable\"", project(*f));
                bad = true;
                break;
            }
            vsched::step(tid);
            st.steps++;
            got = project(*f);
            if (got != s.expect) { st.mismatch(pi, si, join_words(s.act), s.expect, got); bad = true; }
        }
        // drain: run the remaining threads to completion (no comparison any more);
        // if they are stuck (a deadlock the spec also has, e.g. scenario "none"), abort() releases them
        auto drain = [] {
            for (;;) {
                bool any = false;
                for (int t = 0; t < vsched::nthreads(); t++)
                    if (vsched::runnable(t)) { vsched::step(t); any = true; }
                if (!any) break;
            }
        };
        drain();
        if (!vsched::all_finished()) { f->q.abort(); drain(); }
        if (vsched::all_finished()) delete f;   // otherwise threads are parked inside q: leak it
        else st.mismatch(pi, p.steps.size(), "drain", "\"all threads finish after abort()\"", project(*f));
    }
    vsched::reset();
    st.print("oq_conc");
    return 0;
}
