// M1 edge replay of spec/ObjectQueueSeq.tla on the real ObjectQueue<ObjectHeaderBase>.
// Every path of the cover starts from a fresh queue; after every operation the
// projection of the real object (private members + public observers) must be
// the target state of the spec edge.
#include <csignal>
#include <cstdlib>
#include <unistd.h>

#include <Vector/BLF/ObjectQueue.h>

#include "pathrun.h"

using namespace Vector::BLF;

static long g_path = -1, g_step = -1;
static std::string g_act;
static RunStats st;

static void on_alarm(int) {
    // a call the spec says is enabled did not return: report and stop
    char buf[512];
    int n = snprintf(buf, sizeof buf,
                     "RESULT {\"driver\":\"oq_seq\",\"mismatches\":1,\"paths\":%ld,\"steps\":%ld,"
                     "\"first\":{\"path\":%ld,\"step\":%ld,\"act\":\"%s\",\"expected\":\"returns\",\"got\":\"blocked\"}}\n",
                     st.paths, st.steps, g_path, g_step, g_act.c_str());
    (void) !write(1, buf, n);
    _exit(0);
}

static const long INF = 1000000000;
static long inf(uint32_t v) { return v == 0xffffffffu ? INF : (long) v; }

static std::string project(ObjectQueue<ObjectHeaderBase> & q, long ret) {
    JObj o;
    std::vector<long> ids;
    for (ObjectHeaderBase * x : snapshot(q.m_queue)) ids.push_back(x ? (long) x->objectSize : 0);
    o.putb("abort", q.m_abort);
    o.raw("q", jarr(ids.begin(), ids.end(), [](long v) { return jint(v); }));
    // counters through the public observers, the rest from the private members
    o.put("g", (long) q.tellg()).put("p", (long) q.tellp());
    o.put("end", inf(q.m_fileSize)).put("cap", inf(q.m_bufferSize));
    o.putb("good", q.good()).putb("eof", q.eof());
    o.put("ret", ret);
    return o.str();
}

int main(int argc, char ** argv) {
    if (argc < 2) return 2;
    signal(SIGALRM, on_alarm);
    std::vector<PPath> paths = load_paths(argv[1]);
    for (size_t pi = 0; pi < paths.size(); pi++) {
        const PPath & p = paths[pi];
        g_path = pi; g_step = -1; g_act = "init";
        alarm(20);
        ObjectQueue<ObjectHeaderBase> q;
        // P init <cap>
        q.setBufferSize((uint32_t) atol(p.init.at(1).c_str()));
        long ret = -1;
        std::vector<ObjectHeaderBase *> mine;   // objects handed back to us by read()
        std::string got = project(q, ret);
        st.paths++;
        if (got != p.initExpect) { st.mismatch(pi, -1, "init", p.initExpect, got); continue; }
        for (size_t si = 0; si < p.steps.size(); si++) {
            const PStep & s = p.steps[si];
            g_step = si; g_act = join_words(s.act);
            const std::string & op = s.act.at(0);
            long arg = atol(s.act.at(1).c_str());
            if (op == "write") {
                ObjectHeaderBase * o = nullptr;          // write 0 = a null entry ("nullptr can be pushed")
                if (arg != 0) {
                    o = new ObjectHeaderBase(1, ObjectType::UNKNOWN);
                    o->objectSize = (uint32_t) arg;
                }
                q.write(o);
            } else if (op == "read") {
                ObjectHeaderBase * o = q.read();
                ret = o ? (long) o->objectSize : 0;
                if (o) mine.push_back(o);
            } else if (op == "setFileSize") {
                q.setFileSize((uint32_t) arg);
            } else if (op == "abort") {
                q.abort();
            } else {
                fprintf(stderr, "unknown op %s\n", op.c_str());
                return 2;
            }
            st.steps++;
            got = project(q, ret);
            if (got != s.expect) { st.mismatch(pi, si, g_act, s.expect, got); break; }
        }
        for (auto * o : mine) delete o;
    }
    alarm(0);
    st.print("oq_seq");
    return 0;
}
