// Generic pieces shared by all conformance drivers:
//  * JObj / jarr: canonical JSON (keys sorted, no blanks) — byte-identical to
//    python's json.dumps(x, sort_keys=True, separators=(',',':')), which is how
//    tools/vlib.py canonicalises the projections printed by the TLA+ specs.
//  * Path loading for mode M1 (edge replay): format written by vlib.write_paths.
#pragma once
#include <cstdint>
#include <cstdio>
#include <fstream>
#include <map>
#include <queue>
#include <type_traits>
#include <sstream>
#include <string>
#include <vector>

struct JObj {
    std::map<std::string, std::string> kv;
    JObj & put(const std::string & k, long long v) { kv[k] = std::to_string(v); return *this; }
    JObj & put(const std::string & k, int v) { kv[k] = std::to_string(v); return *this; }
    JObj & put(const std::string & k, unsigned v) { kv[k] = std::to_string(v); return *this; }
    JObj & put(const std::string & k, long v) { kv[k] = std::to_string(v); return *this; }
    JObj & put(const std::string & k, unsigned long v) { kv[k] = std::to_string(v); return *this; }
    JObj & putb(const std::string & k, bool v) { kv[k] = v ? "true" : "false"; return *this; }
    JObj & puts(const std::string & k, const std::string & v) { kv[k] = "\"" + v + "\""; return *this; }
    JObj & raw(const std::string & k, const std::string & v) { kv[k] = v; return *this; }
    std::string str() const {
        std::string s = "{";
        bool first = true;
        for (auto & e : kv) {
            if (!first) s += ",";
            first = false;
            s += "\"" + e.first + "\":" + e.second;
        }
        return s + "}";
    }
};

template <class It, class F>
inline std::string jarr(It b, It e, F f) {
    std::string s = "[";
    bool first = true;
    for (; b != e; ++b) {
        if (!first) s += ",";
        first = false;
        s += f(*b);
    }
    return s + "]";
}
inline std::string jint(long long v) { return std::to_string(v); }
inline std::string jstr(const std::string & v) { return "\"" + v + "\""; }

struct PStep {
    std::vector<std::string> act;
    std::string expect;
};
struct PPath {
    std::vector<std::string> init;
    std::string initExpect;
    std::vector<PStep> steps;
};

inline std::vector<std::string> split_words(const std::string & s) {
    std::vector<std::string> w;
    std::istringstream is(s);
    std::string x;
    while (is >> x) w.push_back(x);
    return w;
}

inline std::vector<PPath> load_paths(const char * fn) {
    std::vector<PPath> ps;
    std::ifstream f(fn);
    std::string ln;
    while (std::getline(f, ln)) {
        if (ln.size() < 2) continue;
        char k = ln[0];
        std::string rest = ln.substr(2);
        if (k == 'P') {
            ps.emplace_back();
            ps.back().init = split_words(rest);
        } else if (k == 'I') {
            ps.back().initExpect = rest;
        } else if (k == 'S') {
            size_t tab = rest.find('\t');
            PStep st;
            st.act = split_words(rest.substr(0, tab));
            st.expect = rest.substr(tab + 1);
            ps.back().steps.push_back(st);
        }
    }
    return ps;
}

// Result reporting: one JSON line on stdout that tools/vlib.py parses.
// snapshot of the elements of a std::queue (by copying and popping) or of any iterable container (deque, list,
// vector): the projection must not depend on which of them the library uses for a private member
template <class T, class C>
inline std::vector<T> snapshot(std::queue<T, C> q) {
    std::vector<T> v;
    while (!q.empty()) { v.push_back(q.front()); q.pop(); }
    return v;
}
template <class Cont>
inline auto snapshot(const Cont & c) -> std::vector<typename std::decay<decltype(*c.begin())>::type> {
    return std::vector<typename std::decay<decltype(*c.begin())>::type>(c.begin(), c.end());
}
// remove (and return) the oldest element of either kind
template <class T, class C>
inline T pop_oldest(std::queue<T, C> & q) { T x = q.front(); q.pop(); return x; }
template <class Cont>
inline auto pop_oldest(Cont & c) -> typename std::decay<decltype(*c.begin())>::type {
    auto x = *c.begin();
    c.erase(c.begin());
    return x;
}

struct RunStats {
    long paths = 0, steps = 0, mismatches = 0;
    std::string first;   // description of the first mismatch
    void mismatch(long pi, long si, const std::string & act, const std::string & exp,
                  const std::string & got) {
        if (mismatches++ == 0) {
            JObj o;
            o.put("path", pi).put("step", si).puts("act", act).raw("expected", exp).raw("got", got);
            first = o.str();
        }
    }
    void print(const char * what) const {
        JObj o;
        o.puts("driver", what).put("paths", paths).put("steps", steps).put("mismatches", mismatches);
        if (!first.empty()) o.raw("first", first);
        printf("RESULT %s\n", o.str().c_str());
    }
};

inline std::string join_words(const std::vector<std::string> & w) {
    std::string s;
    for (auto & x : w) { if (!s.empty()) s += " "; s += x; }
    return s;
}
