#!/bin/bash
# tools/mutant.sh verify <worktree> <MUTANTdir> <seeded-id>   : confirm compiles + tests pass + demo fails with / passes without; keep under /verif/seeded/<id>
# tools/mutant.sh detect <seeded-id> <prop> [tier]            : apply to /repo, run bin/check, undo
set -u
cmd=$1; shift
case $cmd in
verify)
  wt=$1; m=$2; id=$3
  cd $wt || exit 2
  git checkout -q -- src && git apply $m/patch.diff || { echo "APPLY FAILED"; exit 2; }
  cmake --build _build -j16 >/dev/null 2>&1 || { echo "BUILD FAILED"; git checkout -q -- src; exit 2; }
  t=$(ctest --test-dir _build -j8 --timeout 120 -E '^(File|ObjectHeaderBase)$' 2>&1 | grep "tests passed")
  echo "with mutant: $t"
  (cd $m && timeout 300 bash ./run_demo.sh $wt >/dev/null 2>&1); d1=$?
  echo "demo with mutant: exit $d1"
  git checkout -q -- src
  cmake --build _build -j16 >/dev/null 2>&1
  (cd $m && timeout 300 bash ./run_demo.sh $wt >/dev/null 2>&1); d0=$?
  echo "demo without mutant: exit $d0"
  if [[ "$t" == *"100% tests passed"* && $d1 -ne 0 && $d0 -eq 0 ]]; then
    mkdir -p /verif/seeded/$id && cp $m/patch.diff $m/demo.cpp $m/run_demo.sh /verif/seeded/$id/ 
    python3 - "$m/meta.json" "/verif/seeded/$id/meta.json" "$t" "$d1" "$d0" <<'PY'
import json,sys
try: m=json.load(open(sys.argv[1]))
except Exception: m={}
m["confirmed"]={"tests_with_mutant":sys.argv[3],"demo_exit_with_mutant":int(sys.argv[4]),"demo_exit_without":int(sys.argv[5]),
  "ran":"git apply patch.diff; cmake --build; ctest -E '^(File|ObjectHeaderBase)$'; run_demo.sh (scratch worktree, removed afterwards)"}
json.dump(m,open(sys.argv[2],"w"),indent=1)
PY
    echo "KEPT /verif/seeded/$id"
  else
    echo "REJECTED"
  fi
  ;;
detect)
  id=$1; prop=$2; tier=${3:-quick}
  cd /verif
  git -C /repo apply /verif/seeded/$id/patch.diff 2>/dev/null || (cd /repo && patch -p1 -s -F3 < /verif/seeded/$id/patch.diff) || { echo "APPLY FAILED"; git -C /repo checkout -- .; exit 2; }
  out=$(timeout 3000 bin/check $prop --tier $tier 2>&1); rc=$?
  git -C /repo checkout -- .
  echo "$out" | grep -E "VIOLATION|KNOWN-FINDING|CHECK-BROKEN" | cut -c1-400
  echo "detect $id by $prop ($tier): rc=$rc"
  ;;
detectc)
  # like detect, but in a scratch clone of /repo (leaves /repo, .work and evidence/ alone)
  id=$1; prop=$2; tier=${3:-quick}
  R=/tmp/repo_det_$$
  git clone -q /repo $R
  ( cd $R && (git apply /verif/seeded/$id/patch.diff 2>/dev/null || patch -p1 -s -F3 < /verif/seeded/$id/patch.diff) ) || { echo "APPLY FAILED"; rm -rf $R; exit 2; }
  out=$(cd /verif && VERIF_REPO=$R VERIF_WORK=/tmp/verif_det_work_$$ VERIF_EVID=/tmp/verif_det_evid_$$ timeout 3000 bin/check $prop --tier $tier 2>&1); rc=$?
  rm -rf $R /tmp/verif_det_work_$$ /tmp/verif_det_evid_$$
  echo "$out" | grep -E "VIOLATION|KNOWN-FINDING|CHECK-BROKEN" | cut -c1-400
  echo "detect $id by $prop ($tier): rc=$rc"
  ;;
esac
