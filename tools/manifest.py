#!/usr/bin/env python3
"""Generates /verif/MANIFEST.json from the table below (single source of truth)."""
import json, os, sys
HERE = os.path.dirname(os.path.dirname(os.path.abspath(__file__)))

CHECKS = {
 "C16": dict(
    category="model_checking",
    text=("TLC checks FIFO/exactly-once, capacity, exact-EOF and abort on the specs ObjectQueueSeq (all non-blocking "
          "histories) and QueueConc (all interleavings with explicit condition-variable wait sets) exhaustively for "
          "small constants; every edge of both state graphs is then executed on the real ObjectQueue (mode M1), the "
          "concurrent graph under the controlled scheduler, comparing the projected object state and the set of "
          "blocked threads after every step. Exhaustive model checking plus edge-complete conformance is the right "
          "level for a small monitor whose whole behaviour fits in a bounded graph."),
    design_ref="DESIGN.md §6 C16, §3.1, §4.3",
    note=("Trusted: TLC, the projection of private members via -fno-access-control, the scheduler shim "
          "(harness/vsync.*) for the concurrent part. Bounds: <=4 (quick) / <=6 (thorough) objects, capacities 1..3(4)."),
    technique="TLA+ spec + TLC exhaustive + M1 edge replay on the real object"),
}

REASON_PENDING = "check under construction in this round (see DESIGN.md §6); not claimed yet"


def main():
    props = [json.loads(l)["id"] for l in open(os.path.join(HERE, "properties.jsonl"))]
    checks = []
    for pid in props:
        if pid not in CHECKS:
            continue
        c = CHECKS[pid]
        checks.append(dict(
            property_id=pid,
            quick_cmd="bin/check %s --tier quick" % pid,
            thorough_cmd="bin/check %s --tier thorough" % pid,
            evidence_file="/verif/evidence/%s.json" % pid,
            replay_cmd_template="bin/check %s --replay {path}" % pid,
            engine="tlc+harness",
            level_claimed=dict(category=c["category"], text=c["text"], design_ref=c["design_ref"]),
            level_note=c["note"],
            technique=c["technique"]))
    na = [dict(property_id=p, reason=NOT_APPLICABLE.get(p, REASON_PENDING)) for p in props if p not in CHECKS]
    m = dict(
        version=1,
        setup_cmd="bin/setup",
        hooks=dict(guard="VECTOR_BLF_VERIF",
                   enable=("no source hook in /repo: checks compile /repo/src out of tree with "
                           "-DVECTOR_BLF_VERIF -include /verif/harness/vsync.h (scheduler-aware std::mutex/"
                           "condition_variable/thread/atomic) and read private state with -fno-access-control"),
                   baseline_off_cmd="bin/baseline_off",
                   source_commits=[],
                   add_only=True),
        engines=[dict(name="tlc+harness", path="/verif/bin/check", serves_properties=[c["property_id"] for c in checks],
                      kind_free_text="TLA+ specs in /verif/spec checked by TLC; conformance drivers in /verif/harness "
                                     "replay TLC edges/vectors on the real code and validate recorded traces")],
        checks=checks,
        notes="See DESIGN.md. Exit 2 from a check means the check itself is broken (build/TLC failure).",
        not_applicable=na)
    with open(os.path.join(HERE, "MANIFEST.json"), "w") as f:
        json.dump(m, f, indent=1)
    print("MANIFEST.json: %d checks, %d not claimed" % (len(checks), len(na)))


NOT_APPLICABLE = {}

if __name__ == "__main__":
    main()
