#!/usr/bin/env python3
"""Generates /verif/MANIFEST.json from the table below (single source of truth)."""
import json, os, sys
HERE = os.path.dirname(os.path.dirname(os.path.abspath(__file__)))

CHECKS = {
 "C01": dict(
    category="model_checking",
    text=("Three layers, each decided against a TLA+ spec. Object level: for every class x payload shapes x selector/"
          "scalar variants the real encoder and decoder are run and TLC validates the record against Framing.tla "
          "(RoundTrip: same class, every member the encoding depends on, every payload container, identical "
          "re-encoding). File level: sequences covering every class are written through the real File and read back "
          "over compression levels x container sizes 1 B..4 MiB x restore points; TLC validates FileRoundTrip (all "
          "delivered, in order, equal, then null/eof/!good). Pipeline level: ReadSession/WriteSession show for every "
          "interleaving of small configurations that bytes and object order pass through unchanged, edge-replayed on "
          "the real File. Only the length fields frozen in Registry.tla (EncoderOwned) may be overwritten by an "
          "encoder. Beyond the bounds: three sessions at the same time in one process must write/read what they do "
          "alone, and a session of more than 4 GiB (positions beyond 2^32) must return every object."),
    design_ref="DESIGN.md §6 C01",
    note=("Field values are seeded samples; classes, shapes, selector ranges and configuration classes are enumerated. "
          "Classes with a listed object-level finding are left out of the file-level sequences."),
    technique="TLA+ framing/session specs + TLC validation of codec and file round-trip records + M1 edge replay"),
 "C02": dict(
    category="model_checking",
    text=("All 517 object images of the Vector-produced reference logs and the shipped .lobj samples (independent "
          "extraction with struct + zlib) are decoded and re-encoded by the real codecs; derived images (single-byte "
          "substitutions - every value in the first 80 bytes in the thorough tier - and aligned 2/4/8-byte boundary "
          "groups) are judged when still decoded completely: values must come back, recomputed members are compared "
          "against the recomputed value, bytes no member depends on are zero by design, and a completely decoded image "
          "must re-encode to the same size. TLC validates the per-image records against Framing.tla (ImageOK) with the "
          "frozen registry and padding set, the frozen list of encoder-derived length fields (EncoderOwned: anything "
          "else the encoder overwrites is a decoded value not carried over) and the frozen in-scope profile of the "
          "derived images (ImageScope: fewer images decoded completely with the same shape means a field value has "
          "started to act as a selector)."),
    design_ref="DESIGN.md §6 C02",
    note=("There is no per-field layout table in TLA+ (DESIGN §8): the Vector images are the format oracle. 'Same shape' "
          "uses the decoded object's containers plus the size-preservation rule; each member a substitution changed is "
          "classified on the real encoder as recomputed / layout / value (DESIGN §8); known findings on derived images "
          "are keyed by offset and the exact set of failing values."),
    technique="reference-image replay with sensitivity analysis + TLC record validation against the frozen registry"),
 "C03": dict(
    category="model_checking",
    text=("For every creatable class x payload shapes (lengths 0..5, mixed, 300, 64 KiB+1) x selector/scalar variants "
          "(small API versions, boundary values, stale length fields) the real encoder's output and the decoder's "
          "behaviour on it are recorded; TLC validates every record against Framing.tla (FramedAsDeclared) using the "
          "frozen header sizes, type registry and padding set of Registry.tla: header-size field, object size = bytes "
          "emitted without padding, padding = size mod 4 zero bytes exactly for the padding types, decode consumes "
          "what was emitted, re-encoding the decoded object reproduces the bytes, and the same bytes reach a real "
          "UncompressedFile whose log container boundaries fall at the object's end, inside its padding and inside its "
          "payload (ufSame). Concatenations of 50 random "
          "encodings are walked by header fields alone; thorough tier repeats the records under ASan."),
    design_ref="DESIGN.md §6 C03",
    note="Scalar values are seeded samples; classes and payload-length residues are enumerated.",
    technique="TLA+ framing/registry spec + TLC validation of encoder/decoder records (M3 vectors)"),
 "C04": dict(
    category="model_checking",
    text=("Container.tla states what a finished file must look like as a function of the written bytes and the "
          "configuration (container sizes = Chop(total, C) plus the empty trailer, method and zlib level class per "
          "level, size arithmetic, zero padding, offset chaining, payload = concatenation of the encodings). Files "
          "written by the real File over level 0..9 x container size 1..4 MiB x restore points x sequence templates "
          "(incl. incompressible payloads) are projected by an independent decoder (struct + zlib only) to records and "
          "TLC validates every record against the spec (trace validation, rejected records are named)."),
    design_ref="DESIGN.md §6 C04",
    note=("Written-file cases include sessions configured only after open() (level, restore points) and three sessions at the same time (bytes equal to the sessions alone). Compression is uninterpreted (inflate must give the declared size). Trusted: python zlib/hashlib, the "
          "decoder tools/blfparse.py. Schedule independence of the container sequence is checked by C07."),
    technique="TLA+ format spec + TLC trace validation of independently decoded files"),
 "C05": dict(
    category="model_checking",
    text=("Same records plus the reader's running counters, validated by TLC against Container.tla (StatsOK): "
          "fileSize, uncompressedFileSize = 144 + sum(32 + usize), objectCount without restore-point objects, "
          "restorePointsOffset, caller-supplied fields verbatim, reader counters = header values; all 170 "
          "Vector-produced reference logs are validated with RefOK (reader counters = their own header). StatsExact is "
          "an invariant of both session specs for all interleavings, edge-replayed on the real File."),
    design_ref="DESIGN.md §6 C05",
    note="The header's compressionLevel is a caller field chosen independently of File::compressionLevel; the read grid contains header-only objects (declared size 16). Written-file cases include sessions configured only after open() and concurrent sessions. 32-bit caller fields are compared modulo 2^31 (TLC integers). The decoder is trusted for the header layout.",
    technique="TLA+ format spec + TLC trace validation + session invariants with M1 edge replay"),
 "C06": dict(
    category="model_checking",
    text=("ReadSession.tla / WriteSession.tla model the three threads of a File session at the grain of the "
          "implementation's critical sections with explicit condition-variable wait sets. TLC checks DeadlockFree "
          "(invariant) and Termination (weak fairness) for every interleaving of each small configuration (object vs "
          "container vs buffer size in every order, early close with full pipeline, spurious wake-ups). Every edge of "
          "those graphs is then executed on the real File under the controlled scheduler (M1: thread status sets and "
          "monitor state compared after each step); medium-size sessions under seeded schedules are logged step by step "
          "and validated by TLC against ReadSessionTrace/WriteSessionTrace (M2); real-scale sessions (128 KiB buffer, "
          "capacity 10, objects up to 4x(buffer+container)) run under seeded random schedules with exact deadlock/"
          "livelock verdicts. A strict mismatch is re-judged by weak trace validation (behaviour up to invisible steps)."),
    design_ref="DESIGN.md §6 C06, §3.2, §4",
    note=("I/O fault injection: WriteSession!IOFail lets the output file fail (badbit) between any two steps of any interleaving (configurations wf_*); DeadlockFree/Termination/FaultPrefix hold on that graph and every edge is replayed on the real File, the driver setting badbit on the real fstream between two scheduler steps; M2 traces and real-scale sessions with a fault at a seeded step. Exhaustive only for the small configurations; real-scale runs are sampled schedules. Weak fairness assumed. "
          "Trusted: TLC, scheduler shim, projection of private members."),
    technique="TLA+ session specs + TLC (safety+liveness) + M1 edge replay under a controlled scheduler + seeded schedules"),
 "C07": dict(
    category="model_checking",
    text=("Same session specs: DeliveredIsPrefix, NullIsLast, EofOnlyAfterLast, DoneDeliveredAll, PipelineOrder (read) "
          "and FileOutUnique = Chop(total, C) (write) are invariants checked by TLC over all interleavings; M1 edge "
          "replay compares delivered ids, queue contents, container sequence and header of the real session with the "
          "spec after every step; real-scale sessions under seeded schedules must deliver exactly the expected ids / "
          "produce a single output hash. Stated as refinement: FileContract.tla is the sequential contract (read() "
          "returns the next object or a final nullptr; bytes reach the file in order and completely at close) and TLC "
          "checks ReadSession => FileContract!ReadSpec and WriteSession => FileContract!WriteSpec (RefinesContract) on "
          "every transition of the same graphs."),
    design_ref="DESIGN.md §6 C07",
    note="As C06. Object identity is the time stamp set by the harness.",
    technique="TLA+ session specs + TLC invariants + M1 edge replay + seeded schedules"),
 "C08": dict(
    category="model_checking",
    text=("Truncation.tla defines, from the container extents in the file and the object extents in the stream, the "
          "objects a reader must deliver for a cut at offset T, when open() may throw, and Monotone/Complete; TLC "
          "evaluates it for EVERY offset 0..size of each concrete file (levels 0/6 quick, 0/1/6/9 thorough; container "
          "sizes making objects span containers; final and initial header). Every cut file is then read by the real "
          "File under a seeded schedule of the controlled scheduler (exact hang verdict) and throws/ids/eof flags/close "
          "are compared with the spec's vector. Cut configurations are additionally model-checked for all "
          "interleavings in ReadSession and edge-replayed."),
    design_ref="DESIGN.md §6 C08",
    note="One seeded schedule per offset (all interleavings only for the small M1 configurations). zlib trusted.",
    technique="TLA+ function spec evaluated by TLC for all crash points + vector replay (M3) + session M1"),
 "C09": dict(
    category="model_checking",
    text=("Resync.tla models ObjectHeaderBase::read's signature scan as an automaton over {L,O,B,J,x}; TLC enumerates "
          "every filler string up to length 6 (quick) / 8 (thorough) that does not contain the signature and checks "
          "FindsFirstSignature; every one of these fillers is executed on the real ObjectHeaderBase::read over a real "
          "UncompressedFile and over a CompressedFile on a real file (end position compared). ReadSession carries the same automaton: configurations with "
          "partial-signature filler and unknown objects (all residues mod 4, reserved/zero/>131 codes) between known "
          "objects and across container boundaries are model-checked for all interleavings (DoneDeliveredAll) and "
          "edge-replayed; real-scale files over 12 unknown codes x 6-7 sizes under seeded schedules."),
    design_ref="DESIGN.md §6 C09",
    note="The 5-letter alphabet abstraction relies on the scan comparing only against the bytes of 'LOBJ'.",
    technique="TLA+ automaton + TLC exhaustive enumeration + vector replay (M3) + session M1 edge replay"),
 "C10": dict(
    category="model_checking",
    text=("ReadSession is run in hostile configurations (object sizes below/above their layout, beyond the file, below "
          "the base header; damaged deflate stream; non-container object at container level; std::bad_alloc inside a "
          "worker): TLC checks DeadlockFree, Termination (weak fairness) and the delivery invariants for all "
          "interleavings and every edge is replayed on the real File. Resync.tla's stream-end mode shows the signature "
          "scan always ends. The property's enumerations are then executed on the real code: every single-byte "
          "substitution with boundary values, aligned 16/32-bit overwrites, every truncation, block duplication/"
          "deletion and seeded random 16/32-bit values on library-built files (9 object kinds, level 0 and 6) and "
          "reference logs - each file opened/read/closed in an ASan+UBSan build under the controlled scheduler with a "
          "256 MiB allocation cap; sanitizer report, escaping exception, dead-/live-lock or endless object stream is a "
          "violation."),
    design_ref="DESIGN.md §6 C10, §8",
    note=("Hostile configurations also include a zeroed header (object size and header size 0, unknown type), a header size above the object size and a stored container with surplus bytes. Absence of undefined behaviour is observed by the sanitizers on the enumerated executions, not deduced from "
          "the spec; one seeded schedule per hostile file."),
    technique="TLA+ hostile session configurations + TLC + M1 edge replay; spec-enumerated fault vectors under ASan/UBSan with exact hang verdicts"),
 "C11": dict(
    category="model_checking",
    text=("Ownership ghost in the session specs (NoStaleAccess, Accounted, AllDeleted) checked by TLC for all "
          "interleavings including an extra scheduling point after every notifying queue section; every edge replayed "
          "on the real File in an ASan+UBSan build where the application deletes each object as soon as read() "
          "returns, so a stale access is a deterministic use-after-free; anti-vacuity probe (the defective order "
          "violates NoStaleAccess); ThreadSanitizer sensor on native sessions with seeded pacing."),
    design_ref="DESIGN.md §6 C11, §8",
    note=("The TSan sensor also runs three sessions at the same time (state shared between File objects). Memory-level races outside the modelled hand-over are only observed by TSan on sampled native schedules; "
          "the spec contributes the schedule enumeration and the ownership argument."),
    technique="TLA+ ownership invariants + TLC + ASan edge replay with post-hand-over scheduling points + TSan sensor"),
 "C12": dict(
    category="model_checking",
    text=("HeldBounded (bytes in held log containers below a bound that does not depend on the number of containers) "
          "and QueueBounded are invariants of both session specs, checked by TLC for all interleavings of small "
          "configurations with many containers, objects spanning containers, stalled consumers, spurious wake-ups; M1 "
          "edge replay compares the container list of the real UncompressedFile after every step; real-scale sessions "
          "of N = 4..256 containers under application-starving seeded schedules: peak held bytes and queue length "
          "measured after every step, compared with the bound and across N."),
    design_ref="DESIGN.md §6 C12",
    note="A hand-made file whose stored container carries more bytes than it declares (r_surplus) must be refused (the accounting counts declared sizes); real-scale peaks count max(declared, stored, compressed) bytes per held container. Held data = containers in UncompressedFile::m_data + queue length; other heap is not measured.",
    technique="TLA+ invariants + TLC + M1 edge replay + measured peaks under seeded starving schedules"),
 "C13": dict(
    category="model_checking",
    text=("Lifecycle.tla: all call histories (bounded length) over open(missing/unwritable/in/out/again), read, write, "
          "close, destroy with ownership and thread ghosts; TLC checks NoThreadLeft, ReleasedAtEnd, flag rules; every "
          "history is replayed on the real File (ASan/LSan): is_open/good/eof, delivered ids, OS threads, leak check "
          "after destruction. Abandoned/early-closed sessions: Accounted/AllDeleted on the session specs for all "
          "interleavings, edge-replayed under ASan."),
    design_ref="DESIGN.md §6 C13",
    note="Histories also contain open(existing non-BLF file) - the library's exception leaves the stream open until close()/destroy - and write() after close(); write sessions with an I/O fault of the output file at any step release every object (AllDeleted, ASan/LSan replay). The write grid includes a session that writes a restore-point container (LSan). good()/eof() compared only while a read session is open; leaks by LeakSanitizer reachability.",
    technique="TLA+ lifecycle spec + TLC + history replay (M3) under ASan/LSan + session ownership invariants"),
 "C14": dict(
    category="model_checking",
    text=("Determinism is decomposed along the spec: (1) WriteSession's FileOutUnique shows for all interleavings that "
          "the container sequence is a function of bytes and configuration (edge-replayed; one output hash over seeded "
          "schedules at real scale); (2) every byte of the payload is explained: records of written files are validated "
          "against Container.tla (payload = concatenation of the object encodings, padding zero); (3) the encodings "
          "themselves do not depend on memory: the same seeded objects of every class/shape are encoded in processes "
          "whose heap is pre-filled with different patterns, and whole files are written in fresh processes with "
          "different patterns and twice with the same - all hashes must agree."),
    design_ref="DESIGN.md §6 C14",
    note="In two of the three poison runs operator delete overwrites the released block (behind a compiler barrier), in the third it does not: an output that depends on released memory differs between runs. Also: three sessions at the same time must write what they write alone; W_late (level/restore points set after open, directed and seeded schedules) must give one output. Stack memory is not poisoned; zlib assumed deterministic.",
    technique="TLA+ session/container specs + TLC + poisoned-heap differential runs"),
 "C15": dict(
    category="model_checking",
    text=("UncompressedFileSeq.tla (one operator per method of UncompressedFile, UFOps) explored exhaustively by TLC "
          "for two alphabets (geometry: chunked writes, whole containers, nextLogContainer, drop, container size "
          "changes; flags: declared end, abort, buffer size) with geometry invariants and read/flag action properties; "
          "every edge executed on the real object comparing all members, observers and the bytes returned. "
          "StreamConc.tla adds the concurrent view (writer, reader, controller; every order relation of read size, "
          "chunk, container and buffer; published demand): DeadlockFree, Termination, BytesExact, PendingBounded by "
          "TLC and edge replay under the controlled scheduler."),
    design_ref="DESIGN.md §6 C15",
    note=("Bounded: positions <= 4..6, container sizes 1..3. The former restriction of write(container) to a closed put "
          "position was removed; the defect it hid (F14) is repaired in /repo."),
    technique="TLA+ sequential spec + TLC exhaustive + M1 edge replay on the real object"),
 "C17": dict(
    category="model_checking",
    text=("Registry.tla freezes code -> class (the annotated include list of File.h) and Framing.tla's "
          "FactoryConsistent is validated by TLC on records of File::createObject for all codes 0..255, boundary and "
          "2000 seeded 32-bit codes (class created, constructor code, class the code maps back to). Default-constructed "
          "objects of every class are built in heap memory pre-filled with 4 patterns (members and encodings must be "
          "identical); their FRAME records are validated by TLC against DefaultRoundTrip (written under a code of the "
          "class, read back completely as the same class)."),
    design_ref="DESIGN.md §6 C17",
    note="Registry frozen from the pinned tree's documentation, cross-checked against the reference logs' type codes.",
    technique="TLA+ registry + TLC record validation + poisoned-heap construction"),
 "C16": dict(
    category="model_checking",
    text=("TLC checks FIFO/exactly-once, capacity, exact-EOF and abort on the specs ObjectQueueSeq (all non-blocking "
          "histories) and QueueConc (all interleavings with explicit condition-variable wait sets) exhaustively for "
          "small constants; every edge of both state graphs is then executed on the real ObjectQueue (mode M1), the "
          "concurrent graph under the controlled scheduler, comparing the projected object state and the set of "
          "blocked threads after every step. Exhaustive model checking plus edge-complete conformance is the right "
          "level for a small monitor whose whole behaviour fits in a bounded graph. Beyond the bounds: OQScale.tla "
          "evaluates the same operators on single large states (capacities / fill levels around 2^8 and 2^16) and the "
          "real queue is put into those states (M3); OQAbs.tla abstracts the queue to its length - ObjectQueueSeq "
          "refines it (TLC) and Apalache proves Counters and CapacityRespected for all capacities and counter values "
          "from an inductive invariant."),
    design_ref="DESIGN.md §6 C16, §3.1, §4.3",
    note=("Trusted: TLC, the projection of private members via -fno-access-control, the scheduler shim "
          "(harness/vsync.*) for the concurrent part. Bounds: <=4 (quick) / <=6 (thorough) objects, capacities 1..3(4)."),
    technique="TLA+ spec + TLC exhaustive + M1 edge replay on the real object + M3 scale vectors + Apalache inductive invariant"),
}

REASON_PENDING = "check under construction in this round (see DESIGN.md §6); not claimed yet"


def main():
    props = [json.loads(l)["id"] for l in open(os.path.join(HERE, "properties.jsonl"))]
    checks = []
    for pid in props:
        if pid not in CHECKS:
            continue
        c = CHECKS[pid]
        checks.append(dict(
            property_id=pid,
            quick_cmd="bin/check %s --tier quick" % pid,
            thorough_cmd="bin/check %s --tier thorough" % pid,
            evidence_file="/verif/evidence/%s.json" % pid,
            replay_cmd_template="bin/check %s --replay {path}" % pid,
            engine="tlc+harness",
            level_claimed=dict(category=c["category"], text=c["text"], design_ref=c["design_ref"]),
            level_note=c["note"],
            technique=c["technique"]))
    na = [dict(property_id=p, reason=NOT_APPLICABLE.get(p, REASON_PENDING)) for p in props if p not in CHECKS]
    m = dict(
        version=1,
        setup_cmd="bin/setup",
        hooks=dict(guard="VECTOR_BLF_VERIF",
                   enable=("no source hook in /repo: checks compile /repo/src out of tree with "
                           "-DVECTOR_BLF_VERIF -include /verif/harness/vsync.h (scheduler-aware std::mutex/"
                           "condition_variable/thread/atomic) and read private state with -fno-access-control"),
                   baseline_off_cmd="bin/baseline_off",
                   source_commits=[],
                   add_only=True),
        engines=[dict(name="tlc+harness", path="/verif/bin/check", serves_properties=[c["property_id"] for c in checks],
                      kind_free_text="TLA+ specs in /verif/spec checked by TLC; conformance drivers in /verif/harness "
                                     "replay TLC edges/vectors on the real code and validate recorded traces")],
        checks=checks,
        notes="See DESIGN.md. Exit 2 from a check means the check itself is broken (build/TLC failure).",
        not_applicable=na)
    with open(os.path.join(HERE, "MANIFEST.json"), "w") as f:
        json.dump(m, f, indent=1)
    print("MANIFEST.json: %d checks, %d not claimed" % (len(checks), len(na)))


NOT_APPLICABLE = {}

if __name__ == "__main__":
    main()
