#!/usr/bin/env python3
import json, sys, glob
import jsonschema
m = json.load(open('/verif/MANIFEST.json'))
jsonschema.validate(m, json.load(open('/root/.vp/MANIFEST.schema.json')))
es = json.load(open('/root/.vp/EVIDENCE.schema.json'))
for c in m['checks']:
    try:
        jsonschema.validate(json.load(open(c['evidence_file'])), es)
    except Exception as e:
        print('EVIDENCE INVALID', c['evidence_file'], str(e)[:300])
print('validated', len(m['checks']), 'checks')
