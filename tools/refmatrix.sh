#!/bin/bash
# Runs every check against each behaviour-preserving refactoring (seeded/_benign/*): any VIOLATION is a false alarm.
set -u
R=/tmp/repo_refm
rm -rf $R /tmp/verif_refm_work /tmp/verif_refm_evid
git clone -q /repo $R
export VERIF_REPO=$R VERIF_WORK=/tmp/verif_refm_work VERIF_EVID=/tmp/verif_refm_evid
out=/verif/seeded/_benign/${OUT:-RESULTS.txt}
: > $out.tmp
for d in /verif/seeded/_benign/${ONLY:-RF*}/; do
  id=$(basename $d)
  ( cd $R && git checkout -q -- . && git apply $d/patch.diff ) || { echo "$id APPLY-FAILED" >> $out.tmp; continue; }
  for p in ${CHECKS:-C01 C02 C03 C04 C05 C06 C07 C08 C09 C10 C11 C12 C13 C14 C15 C16 C17}; do
    res=$(cd /verif && timeout 3000 bin/check $p --tier quick 2>&1); rc=$?
    keys=$(echo "$res" | grep -E '^VIOLATION|CHECK-BROKEN' | sed -E 's/.*#  ?([^ ]+): .*/\1/' | sort -u | head -3 | cut -c1-120 | tr '\n' ' ')
    echo "$id $p rc=$rc $keys" >> $out.tmp
  done
  ( cd $R && git checkout -q -- . )
done
mv $out.tmp $out
rm -rf $R /tmp/verif_refm_work /tmp/verif_refm_evid
