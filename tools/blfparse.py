#!/usr/bin/env python3
"""Independent decoder of the BLF container format (stdlib only: struct + zlib).
Projects a file to the record validated by spec/Container.tla:
  header fields, per container [off, objSize, stored, usize, method, flevel, padOk, inflateOk, hdrOk],
  payload length + sha256, trailing garbage, and a structural verdict list."""
import hashlib
import json
import struct
import sys
import zlib


def parse(path):
    b = open(path, "rb").read()
    rec = dict(file=path, size=len(b), problems=[], containers=[])
    if len(b) < 144 or b[:4] != b"LOGG":
        rec["problems"].append("no LOGG header")
        return rec
    (sig, ssize, api, appid, clevel, amaj, amin, fsize, usize, ocount, abuild) = struct.unpack_from("<4sIIBBBBQQII", b, 0)
    start = struct.unpack_from("<8H", b, 40)
    last = struct.unpack_from("<8H", b, 56)
    rpo, = struct.unpack_from("<Q", b, 72)
    rec["header"] = dict(statisticsSize=ssize, apiNumber=api, applicationId=appid, compressionLevel=clevel,
                         applicationMajor=amaj, applicationMinor=amin, fileSize=fsize, uncompressedFileSize=usize,
                         objectCount=ocount, applicationBuild=abuild, measurementStartTime=list(start),
                         lastObjectTime=list(last), restorePointsOffset=rpo,
                         reserved=list(struct.unpack_from("<16I", b, 80)))
    off = 144
    h = hashlib.sha256()
    plen = 0
    while off < len(b):
        c = dict(off=off, hdrOk=False, padOk=True, inflateOk=False, objSize=0, stored=0, usize=0, method=-1, flevel=-1)
        if off + 32 > len(b):
            rec["problems"].append("trailing %d bytes at %d" % (len(b) - off, off))
            break
        (s, hsize, hver, osize, otype, method, r1, r2, us, r3) = struct.unpack_from("<4sHHIIHHIII", b, off)
        c.update(objSize=osize, method=method, usize=us, stored=osize - 32)
        c["hdrOk"] = (s == b"LOBJ" and hsize == 16 and hver == 1 and otype == 10 and osize >= 32)
        if not c["hdrOk"]:
            rec["containers"].append(c)
            rec["problems"].append("bad container header at %d" % off)
            break
        payload = b[off + 32: off + osize]
        if len(payload) != osize - 32:
            rec["problems"].append("container at %d truncated" % off)
            rec["containers"].append(c)
            break
        data = None
        if method == 0:
            data = payload
            c["inflateOk"] = (len(payload) == us)
        elif method == 2:
            try:
                d = zlib.decompressobj()
                data = d.decompress(payload)
                c["inflateOk"] = (d.eof and d.unused_data == b"" and len(data) == us)
                if len(payload) >= 2:
                    c["flevel"] = payload[1] >> 6
            except zlib.error:
                data = None
        if data is not None and c["inflateOk"]:
            h.update(data)
            plen += len(data)
        pad = osize % 4
        padbytes = b[off + osize: off + osize + pad]
        # the last container may lack its padding only if the file ends there
        c["padOk"] = (padbytes == b"\0" * pad) or (off + osize + pad > len(b) and padbytes == b"\0" * len(padbytes))
        c["padLen"] = len(padbytes)
        rec["containers"].append(c)
        off += osize + pad
    rec["payloadLen"] = plen
    rec["payloadSha"] = h.hexdigest()
    return rec


if __name__ == "__main__":
    for p in sys.argv[1:]:
        print(json.dumps(parse(p)))
