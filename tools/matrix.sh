#!/bin/bash
# Runs every seeded change against the check of its property in a scratch clone of /repo
# (so /repo and /verif/evidence are left alone); writes /verif/seeded/RESULTS.txt
set -u
# env: ONLY=<regex on ids> (partial run), SUFFIX=<tag> (several streams side by side), OUT=<file name under seeded/>
S=${SUFFIX:-}
R=/tmp/repo_matrix$S
W=/tmp/verif_matrix_work$S
E=/tmp/verif_matrix_evid$S
rm -rf $R $W $E
git clone -q /repo $R
export VERIF_REPO=$R VERIF_WORK=$W VERIF_EVID=$E
out=/verif/seeded/${OUT:-RESULTS.txt}
: > $out.tmp
for d in /verif/seeded/*/; do
  id=$(basename $d)
  [ "$id" = "_retired" ] && continue
  [ "$id" = "_benign" ] && continue
  if [ -n "${ONLY:-}" ] && ! [[ "$id" =~ $ONLY ]]; then continue; fi
  prop=$(python3 -c "import json;print(json.load(open('$d/meta.json')).get('property','${id%%-*}'))")
  for p in $prop ${EXTRA:-}; do
    ( cd $R && git checkout -q -- . && (git apply $d/patch.diff 2>/dev/null || patch -p1 -s -F3 < $d/patch.diff) ) || { echo "$id $p APPLY-FAILED" >> $out.tmp; continue; }
    res=$(cd /verif && timeout 3000 bin/check $p --tier quick 2>&1); rc=$?
    keys=$(echo "$res" | grep '^VIOLATION' | sed -E 's/.*#  ?([^ ]+): .*/\1/' | sort -u | head -4 | tr '\n' ' ')
    echo "$id $p rc=$rc $keys" >> $out.tmp
    ( cd $R && git checkout -q -- . )
  done
done
if [ -n "${ONLY:-}" ]; then
  # partial run: replace the rows of the ids that were run
  touch $out
  grep -v -E "^($(cut -d' ' -f1 $out.tmp | sort -u | paste -sd'|')) " $out > $out.keep
  cat $out.keep $out.tmp | sort > $out; rm -f $out.keep $out.tmp
else
  mv $out.tmp $out
fi
rm -rf $R $W $E
