import os, sys
sys.path.insert(0, os.path.dirname(os.path.abspath(__file__)))
import vlib
PLAN = {
    "plain": ["drv_oq_seq"],
}
for variant, drivers in PLAN.items():
    drivers = [d for d in drivers if os.path.exists(os.path.join(vlib.HARNESS, d + ".cpp"))]
    if drivers:
        vlib.build(variant, drivers)
