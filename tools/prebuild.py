import os, sys
sys.path.insert(0, os.path.dirname(os.path.abspath(__file__)))
import vlib
PLAN = {
    "plain": ["drv_oq_seq", "drv_uf_seq", "drv_resync", "drv_wfile", "drv_codec", "drv_native"],
    "sched": ["drv_oq_conc", "drv_uf_conc", "drv_rsession", "drv_wsession"],
    "asan": ["drv_rsession", "drv_wsession"],
    "pasan": ["drv_life"],
    "tsan": ["drv_native"],
}
for variant, drivers in PLAN.items():
    drivers = [d for d in drivers if os.path.exists(os.path.join(vlib.HARNESS, d + ".cpp"))]
    if drivers:
        vlib.build(variant, drivers)
