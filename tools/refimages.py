#!/usr/bin/env python3
"""Extracts every object image (header, body, padding) from the Vector-produced reference logs with an
independent walk (struct + zlib): container payloads are concatenated, objects are found by their header
fields alone.  Prints '<name> <hex>' lines (for harness/drv_codec images) and, with --padtypes, the set of
object types that are followed by objectSize % 4 padding bytes."""
import os
import struct
import sys
import zlib


def stream_of(path):
    b = open(path, "rb").read()
    off = 144
    out = b""
    while off + 32 <= len(b) and b[off:off + 4] == b"LOBJ":
        (hs, hv, osz, ot, method, r1, r2, us, r3) = struct.unpack_from("<HHIIHHIII", b, off + 4)
        payload = b[off + 32:off + osz]
        out += payload if method == 0 else zlib.decompress(payload)
        off += osz + osz % 4
    return out


def objects(stream):
    """yields (type, image_with_padding, objectSize)"""
    off = 0
    n = len(stream)
    while off + 16 <= n:
        if stream[off:off + 4] != b"LOBJ":
            off += 1          # resynchronise (padding between objects)
            continue
        (hs, hv, osz, ot) = struct.unpack_from("<HHII", stream, off + 4)
        if osz < 16 or off + osz > n:
            break
        end = off + osz
        # padding = bytes up to the next signature (at most 3)
        pad = 0
        while end + pad < n and pad < 3 and stream[end + pad:end + pad + 4] != b"LOBJ":
            pad += 1
        if end + pad < n and stream[end + pad:end + pad + 4] != b"LOBJ":
            pad = 0
        yield ot, stream[off:end + pad], osz, pad, (end + pad >= n)
        off = end + pad


def all_images(base):
    for d in ("events_from_binlog", "events_from_converter"):
        dd = os.path.join(base, d)
        for f in sorted(os.listdir(dd)):
            if not f.endswith(".blf"):
                continue
            try:
                s = stream_of(os.path.join(dd, f))
            except Exception:
                continue
            for i, (ot, img, osz, pad, last) in enumerate(objects(s)):
                yield "%s/%s#%d" % (d, f, i), ot, img, osz, pad, last


if __name__ == "__main__":
    base = sys.argv[1]
    if "--padtypes" in sys.argv:
        padded, unpadded = {}, {}
        for name, ot, img, osz, pad, last in all_images(base):
            if osz % 4 and not last:
                (padded if pad == osz % 4 else unpadded).setdefault(ot, []).append((name, osz, pad))
        print("padded", sorted(padded))
        print("unpadded", sorted(unpadded))
        print("both", sorted(set(padded) & set(unpadded)))
    else:
        for name, ot, img, osz, pad, last in all_images(base):
            print(name, img.hex())
