"""Common machinery for /verif checks: building the library under test from
/repo's *current working tree*, running TLC, turning TLC edge logs into path
covers, writing evidence, known-findings handling.

Nothing here keeps state under /tmp; everything lives in /verif/.work.
"""
import hashlib
import json
import os
import re
import shutil
import subprocess
import sys
import time

VERIF = os.path.dirname(os.path.dirname(os.path.abspath(__file__)))
REPO = os.environ.get("VERIF_REPO", "/repo")
SRC = os.path.join(REPO, "src")
BLF = os.path.join(SRC, "Vector", "BLF")
WORK = os.environ.get("VERIF_WORK", os.path.join(VERIF, ".work"))
SPEC = os.path.join(VERIF, "spec")
HARNESS = os.path.join(VERIF, "harness")
EVID = os.environ.get("VERIF_EVID", os.path.join(VERIF, "evidence"))
for _s in ("cfg", "traces", "mc", "sessions", "tlc", "build"):
    os.makedirs(os.path.join(WORK, _s), exist_ok=True)
TLA_JAR = "/opt/veriftools/tla/tla2tools.jar:/opt/veriftools/tla/CommunityModules-deps.jar"
NCPU = os.cpu_count() or 4


def log(*a):
    print(*a, file=sys.stderr, flush=True)


# --------------------------------------------------------------------------
# building
# --------------------------------------------------------------------------
VARIANTS = {
    # plain: sequential harnesses (codecs, monitors driven from one thread)
    "plain": dict(cxx="g++", flags=["-O1", "-g"], shim=False),
    # sched: std::mutex/condition_variable/thread/atomic replaced by the
    # scheduler-aware types of harness/vsync.h (force-included)
    "sched": dict(cxx="g++", flags=["-O1", "-g"], shim=True),
    # asan: sched + AddressSanitizer + UBSan (stale accesses become deterministic)
    "asan": dict(cxx="g++", flags=["-O1", "-g", "-fsanitize=address,undefined",
                                    "-fno-sanitize-recover=undefined",
                                    "-fno-omit-frame-pointer"], shim=True),
    # pasan: plain + ASan/UBSan (sequential codec harnesses on hostile input)
    "pasan": dict(cxx="g++", flags=["-O1", "-g", "-fsanitize=address,undefined",
                                     "-fno-sanitize-recover=undefined",
                                     "-fno-omit-frame-pointer"], shim=False),
    # tsan: the real std types, ThreadSanitizer (sensor for C11 only)
    "tsan": dict(cxx="g++", flags=["-O1", "-g", "-fsanitize=thread"], shim=False),
}
COMMON = ["-std=gnu++17", "-fPIC", "-pthread", "-w", "-fno-access-control"]


def lib_sources():
    out = []
    for f in sorted(os.listdir(BLF)):
        if f.endswith(".cpp"):
            out.append(os.path.join(BLF, f))
    return out


def tree_hash(extra=()):
    h = hashlib.sha256()
    for f in sorted(os.listdir(BLF)):
        p = os.path.join(BLF, f)
        if os.path.isfile(p) and (f.endswith(".cpp") or f.endswith(".h") or f.endswith(".in")):
            h.update(f.encode())
            with open(p, "rb") as fh:
                h.update(fh.read())
    for p in extra:
        h.update(p.encode())
        if os.path.isfile(p):
            with open(p, "rb") as fh:
                h.update(fh.read())
    return h.hexdigest()[:16]


def _gen_headers(gen):
    d = os.path.join(gen, "Vector", "BLF")
    os.makedirs(d, exist_ok=True)
    for fn, txt in (("config.h", "#pragma once\n"),
                    ("vector_blf_export.h", "#pragma once\n#define VECTOR_BLF_EXPORT\n"
                     "#define VECTOR_BLF_NO_EXPORT\n#define VECTOR_BLF_DEPRECATED\n")):
        p = os.path.join(d, fn)
        if not os.path.exists(p) or open(p).read() != txt:
            with open(p, "w") as f:
                f.write(txt)


def variant_flags(variant, bdir):
    v = VARIANTS[variant]
    fl = list(COMMON) + list(v["flags"]) + ["-I" + SRC, "-I" + os.path.join(bdir, "gen"),
                                            "-I" + HARNESS]
    if v["shim"]:
        fl += ["-DVECTOR_BLF_VERIF", "-include", os.path.join(HARNESS, "vsync.h")]
    return v["cxx"], fl


def build(variant, drivers, keep=3):
    """Build the library (all of /repo/src/Vector/BLF/*.cpp) in the given
    variant plus the named harness drivers; returns dict driver -> executable.
    Build directories are keyed by a hash of the library sources, the harness
    sources and the flags; older directories of the same variant are pruned."""
    # key: library sources + flags (+ the shim for shim variants).  Driver sources live in
    # /verif and are tracked by ninja (mtime + depfiles) inside the keyed directory.
    hfiles = [os.path.join(HARNESS, "vsync.h"), os.path.join(HARNESS, "vsync.cpp")] \
        if VARIANTS[variant]["shim"] else []
    key = tree_hash(hfiles + [variant, json.dumps(VARIANTS[variant], sort_keys=True), " ".join(COMMON)])
    root = os.path.join(WORK, "build")
    os.makedirs(root, exist_ok=True)
    bdir = os.path.join(root, "%s-%s" % (variant, key))
    exes = {d: os.path.join(bdir, d) for d in drivers}
    os.makedirs(bdir, exist_ok=True)
    os.utime(bdir)
    # all drivers ever requested in this directory stay in build.ninja
    known = set(drivers)
    dl = os.path.join(bdir, "drivers.txt")
    if os.path.exists(dl):
        known |= set(x for x in open(dl).read().split() if os.path.exists(os.path.join(HARNESS, x + ".cpp")))
    with open(dl, "w") as f:
        f.write(" ".join(sorted(known)))
    alld = sorted(known)
    _gen_headers(os.path.join(bdir, "gen"))
    import gen_reflect
    gen_reflect.main(BLF, os.path.join(bdir, "gen", "reflect_gen.h"))
    cxx, fl = variant_flags(variant, bdir)
    lines = ["cxx = %s" % cxx, "flags = %s" % " ".join(fl),
             "rule cc", "  command = $cxx $flags -MD -MF $out.d -c $in -o $out",
             "  depfile = $out.d", "  deps = gcc", "  description = CC $out",
             "rule ar", "  command = rm -f $out && ar crs $out $in", "  description = AR $out",
             "rule link",
             "  command = $cxx $flags -o $out $in $libs",
             "  description = LINK $out", ""]
    objs = []
    for s in lib_sources():
        o = "obj/" + os.path.basename(s)[:-4] + ".o"
        objs.append(o)
        lines.append("build %s: cc %s" % (o, s))
    lines.append("build libblf.a: ar %s" % " ".join(objs))
    shim_objs = []
    if VARIANTS[variant]["shim"]:
        # the scheduler itself is compiled WITHOUT the force-include
        lines.append("build obj/vsync_impl.o: cc %s" % os.path.join(HARNESS, "vsync.cpp"))
        lines.append("  flags = %s" % " ".join(
            [x for x in fl if x not in ("-include", os.path.join(HARNESS, "vsync.h"))]))
        shim_objs = ["obj/vsync_impl.o"]
    for d in alld:
        src = os.path.join(HARNESS, d + ".cpp")
        lines.append("build obj/%s.o: cc %s" % (d, src))
        lines.append("build %s: link obj/%s.o %s libblf.a" % (d, d, " ".join(shim_objs)))
        lines.append("  libs = -lz -lrapidcheck")
    txt = "\n".join(lines) + "\n"
    bn = os.path.join(bdir, "build.ninja")
    if not os.path.exists(bn) or open(bn).read() != txt:
        with open(bn, "w") as f:
            f.write(txt)
    t0 = time.time()
    r = subprocess.run(["ninja", "-C", bdir, "-j", str(NCPU)] + list(drivers),
                       stdout=subprocess.PIPE, stderr=subprocess.STDOUT, text=True)
    if r.returncode != 0:
        log(r.stdout[-6000:])
        raise BuildError("build of variant %s failed" % variant)
    if time.time() - t0 > 1.0:
        log("[build] %s %s in %.1fs" % (variant, ",".join(drivers), time.time() - t0))
    # prune
    sib = sorted((os.path.join(root, x) for x in os.listdir(root) if x.startswith(variant + "-")),
                 key=lambda p: os.path.getmtime(p), reverse=True)
    for old in sib[keep:]:
        shutil.rmtree(old, ignore_errors=True)
    return exes


class BuildError(Exception):
    pass


class ToolError(Exception):
    pass


# --------------------------------------------------------------------------
# TLC
# --------------------------------------------------------------------------
def run_tlc(module, cfg, name, workers=None, timeout=600, simulate=None, depth=None,
            extra=(), env=None, deadlock=None, heap="8g", coverage=False, dfs=False):
    """Runs TLC on spec/<module>.tla with config file cfg (absolute or in spec/).
    Returns a dict: ok, violated (str or None), generated, distinct, depth,
    out (path of the full output), lines (list of printed JSON objects from
    PrintT(ToJson(..)))."""
    wdir = os.path.join(WORK, "tlc", name)
    shutil.rmtree(wdir, ignore_errors=True)
    os.makedirs(wdir)
    tla = module if os.path.isabs(module) else os.path.join(SPEC, module + ".tla")
    cfgp = cfg if os.path.isabs(cfg) else os.path.join(SPEC, cfg)
    jopts = ["-XX:+UseParallelGC", "-Xmx" + heap, "-Xss64m", "-DTLA-Library=" + SPEC]
    if dfs:
        jopts.append("-Dtlc2.tool.queue.IStateQueue=StateDeque")
    cmd = ["java"] + jopts + ["-cp", TLA_JAR, "tlc2.TLC",
                              "-workers", str(workers or min(NCPU, 8)),
                              "-metadir", os.path.join(wdir, "md"),
                              "-noGenerateSpecTE",
                              "-difftrace",          # traces print only what changed (cfg records are large)
                              "-config", cfgp]
    if simulate:
        cmd += ["-simulate", "num=%d" % simulate]
        if depth:
            cmd += ["-depth", str(depth)]
    if deadlock is True:
        pass
    if coverage:
        cmd += ["-coverage", "1"]
    cmd += list(extra) + [tla]
    outp = os.path.join(wdir, "out.txt")
    e = dict(os.environ)
    if env:
        e.update(env)
    t0 = time.time()
    with open(outp, "w") as fo:
        try:
            r = subprocess.run(cmd, stdout=fo, stderr=subprocess.STDOUT, cwd=SPEC, env=e,
                               timeout=timeout)
            rc = r.returncode
        except subprocess.TimeoutExpired:
            rc = -9
    res = dict(out=outp, rc=rc, wall=time.time() - t0, generated=0, distinct=0, depth=0,
               violated=None, ok=False, timeout=(rc == -9), cmd=" ".join(cmd[cmd.index("tlc2.TLC"):]))
    lines = []
    printed = []          # PrintT'ed tuples (<<"REJECTED", ..>>, <<"ACCEPTED", ..>>): kept in memory, the file may be cut
    cov = {}
    with open(outp, errors="replace") as f:
        for ln in f:
            if ln.startswith('<<"'):
                printed.append(ln.rstrip("\n"))
                continue
            if ln.startswith('"{'):
                try:
                    lines.append(json.loads(json.loads(ln)))
                except Exception:
                    pass
                continue
            m = re.match(r"(\d+) states generated, (\d+) distinct states found", ln)
            if m:
                res["generated"] = int(m.group(1))
                res["distinct"] = int(m.group(2))
            m = re.match(r"The depth of the complete state graph search is (\d+)", ln)
            if m:
                res["depth"] = int(m.group(1))
            m = re.match(r"Error: (Invariant (\S+) is violated|Deadlock reached|Action property (\S+) is violated|Temporal properties were violated|.*)", ln)
            if m and res["violated"] is None:
                res["violated"] = m.group(1).strip()
            m = re.match(r"<(\w+) line .*>: (\d+):(\d+)", ln)
            if m:
                cov[m.group(1)] = [int(m.group(2)), int(m.group(3))]
    res["lines"] = lines
    res["printed"] = printed
    res["coverage"] = cov
    # the edge log can be hundreds of MB: keep only TLC's own messages on disk
    try:
        if os.path.getsize(outp) > (20 << 20):
            keep = []
            with open(outp, errors="replace") as f:
                for ln in f:
                    if not ln.startswith('"{'):
                        keep.append(ln)
            with open(outp, "w") as f:
                f.writelines(keep[-5000:])
    except OSError:
        pass
    shutil.rmtree(os.path.join(wdir, "md"), ignore_errors=True)
    res["ok"] = (rc == 0 and res["violated"] is None)
    return res


def write_mc(name, base, defs):
    """TLC .cfg files cannot hold records/tuples: generate a module that EXTENDS the
    spec and defines the constants; returns its absolute path (in .work/mc, which is
    put on TLC's module search path together with /verif/spec)."""
    d = os.path.join(WORK, "mc")
    os.makedirs(d, exist_ok=True)
    p = os.path.join(d, name + ".tla")
    with open(p, "w") as f:
        f.write("---- MODULE %s ----\nEXTENDS %s\n%s\n====\n" % (name, base, defs))
    return p


def tlc_must_pass(res, what):
    """Model failure (parse error, crash, timeout) is 'check broken' (exit 2),
    a property violation *of the spec itself* is reported distinctly."""
    if res["ok"]:
        return
    tail = ""
    try:
        with open(res["out"], errors="replace") as f:
            tail = "".join([l for l in f if not l.startswith('"{')][-40:])
    except Exception:
        pass
    log(tail)
    raise ToolError("TLC run '%s' did not pass: rc=%s violated=%s timeout=%s"
                    % (what, res["rc"], res["violated"], res["timeout"]))


# --------------------------------------------------------------------------
# edge logs -> path cover
# --------------------------------------------------------------------------
def canon(x):
    return json.dumps(x, sort_keys=True, separators=(",", ":"))


def path_cover(lines, max_paths=None):
    """lines: dicts {init:proj,a:act} and {s:proj,a:act,t:proj} as printed by
    the EdgeLog/InitLog operators.  Returns (paths, stats) where a path is
    [init_action, init_state, [(action, target_state), ...]] and every distinct
    edge occurs in at least one path."""
    inits = {}
    succ = {}
    projs = {}     # full spec state -> canonical projection compared with the real code
    nedges = 0
    for d in lines:
        if "init" in d:
            k = canon(d["init"])
            inits[k] = d["a"]
            projs[k] = canon(d["pt"]) if "pt" in d else k
        elif "s" in d:
            s, a, t = canon(d["s"]), canon(d["a"]), canon(d["t"])
            projs[t] = canon(d["pt"]) if "pt" in d else t
            m = succ.setdefault(s, {})
            if a not in m:
                m[a] = t
                nedges += 1
            elif m[a] != t:
                raise ToolError("spec is not deterministic per action: %s %s" % (s, a))
            succ.setdefault(t, {})
    # BFS tree
    parent = {}
    order = []
    frontier = list(inits.keys())
    for s in frontier:
        parent[s] = None
    while frontier:
        nxt = []
        for s in frontier:
            order.append(s)
            for a, t in succ.get(s, {}).items():
                if t not in parent:
                    parent[t] = (s, a)
                    nxt.append(t)
        frontier = nxt
    uncovered = {s: set(m.keys()) for s, m in succ.items() if m}
    paths = []

    def prefix(s):
        rev = []
        while parent[s] is not None:
            ps, a = parent[s]
            rev.append((a, s))
            s = ps
        return s, list(reversed(rev))

    for s in order:
        while uncovered.get(s):
            root, steps = prefix(s)
            for (a, t) in steps:
                pass
            cur = s
            # mark prefix edges as covered too
            c = root
            for (a, t) in steps:
                if c in uncovered:
                    uncovered[c].discard(a)
                c = t
            while uncovered.get(cur):
                a = min(uncovered[cur])
                uncovered[cur].discard(a)
                t = succ[cur][a]
                steps.append((a, t))
                cur = t
            paths.append([inits[root], projs[root], [(a, projs[t]) for (a, t) in steps]])
            if max_paths and len(paths) >= max_paths:
                break
    stats = dict(states=len(succ), edges=nedges, paths=len(paths),
                 steps=sum(len(p[2]) for p in paths), inits=len(inits))
    return paths, stats


def write_paths(paths, fn, fmt_action):
    """Line format understood by harness/pathrun.h:
         P <init action words>
         I <expected canonical projection of the initial state>
         S <action words> \t <expected canonical projection after the step>"""
    with open(fn, "w") as f:
        for (ia, root, steps) in paths:
            f.write("P %s\n" % fmt_action(ia if isinstance(ia, dict) else json.loads(ia)))
            f.write("I %s\n" % root)
            for (a, t) in steps:
                f.write("S %s\t%s\n" % (fmt_action(json.loads(a)), t))


# --------------------------------------------------------------------------
# evidence / findings
# --------------------------------------------------------------------------
def known_findings():
    p = os.path.join(VERIF, "known_findings.json")
    if not os.path.exists(p):
        return {"known": [], "fixed": []}
    with open(p) as f:
        return json.load(f)


class Report:
    """Collects violations for one property; separates listed known findings
    (printed as KNOWN-FINDING, exit 0) from new violations (VIOLATION, exit 1)."""

    def __init__(self, pid, tier, seed):
        self.pid, self.tier, self.seed = pid, tier, seed
        self.t0 = time.time()
        self.violations = []      # (key, text, replay)
        self.known_hit = {}
        self.cov = dict(evaluations=0, distinct_nontrivial=0, states=0, transitions=0,
                        traces_validated_against_impl=0, samples=[], rule="")
        self.assumptions = []
        kf = known_findings()
        self.known = [k for k in kf.get("known", []) if k["property"] == pid]
        shutil.rmtree(os.path.join(EVID, "replays", pid), ignore_errors=True)

    def violation(self, key, text, replay_obj=None):
        for k in self.known:
            if re.fullmatch(k["key"], key):
                self.known_hit.setdefault(k["key"], (k, text))
                return
        rp = None
        if replay_obj is not None:
            d = os.path.join(EVID, "replays", self.pid)
            os.makedirs(d, exist_ok=True)
            rp = os.path.join(d, re.sub(r"[^A-Za-z0-9_.-]", "_", key)[:120] + ".json")
            with open(rp, "w") as f:
                json.dump(replay_obj, f, indent=1)
        self.violations.append((key, text, rp))

    def add_tlc(self, res):
        self.cov["states"] += res["distinct"]
        self.cov["transitions"] += res["generated"]
        self.cov.setdefault("tlc_runs", []).append(
            dict(cmd=res["cmd"], distinct=res["distinct"], generated=res["generated"],
                 depth=res["depth"], wall_s=round(res["wall"], 1),
                 coverage=res.get("coverage") or None))

    def finish(self, level="model_checking"):
        for key, (k, text) in self.known_hit.items():
            print("KNOWN-FINDING: property=%s %s (%s)" % (self.pid, k.get("what", key), text))
        seen = set()
        for key, text, rp in self.violations:
            if key in seen:
                continue
            seen.add(key)
            print("VIOLATION property=%s replay=%s  # %s: %s" % (self.pid, rp or "-", key, text))
        ev = dict(property_id=self.pid, tier=self.tier, seed=self.seed, level=level,
                  coverage=self.cov, assumptions=self.assumptions,
                  wall_s=round(time.time() - self.t0, 2), violations=len(seen))
        ev["coverage"]["known_findings_reproduced"] = sorted(self.known_hit.keys())
        if not self.cov["samples"]:
            self.cov["samples"] = ["(none recorded)"]
        os.makedirs(EVID, exist_ok=True)
        with open(os.path.join(EVID, self.pid + ".json"), "w") as f:
            json.dump(ev, f, indent=1)
        return 1 if seen else 0


# --------------------------------------------------------------------------
# running drivers
# --------------------------------------------------------------------------
def run_driver(exe, args, timeout=600, env=None, stdin=None):
    """Runs a harness driver; returns (list of RESULT dicts, other stdout lines, rc, stderr tail)."""
    e = dict(os.environ)
    e.setdefault("ASAN_OPTIONS", "detect_leaks=1:abort_on_error=0:exitcode=66:allocator_may_return_null=1")
    e.setdefault("UBSAN_OPTIONS", "print_stacktrace=1:halt_on_error=1:exitcode=67")
    e.setdefault("TSAN_OPTIONS", "exitcode=68:halt_on_error=0")
    if env:
        e.update(env)
    try:
        r = subprocess.run([exe] + [str(a) for a in args], stdout=subprocess.PIPE,
                           stderr=subprocess.PIPE, text=True, errors="replace",
                           timeout=timeout, env=e, input=stdin)
        rc, out, err = r.returncode, r.stdout, r.stderr
    except subprocess.TimeoutExpired as x:
        rc = -9
        out = x.stdout.decode(errors="replace") if isinstance(x.stdout, bytes) else (x.stdout or "")
        err = x.stderr.decode(errors="replace") if isinstance(x.stderr, bytes) else (x.stderr or "")
    results, other = [], []
    for ln in out.splitlines():
        if ln.startswith("RESULT "):
            try:
                results.append(json.loads(ln[7:]))
            except Exception:
                other.append(ln)
        else:
            other.append(ln)
    return results, other, rc, (err if len(err) < 12000 else err[:8000] + "\n...\n" + err[-4000:])


def replay_paths(exe, paths, fmt_action, name, nproc=None, timeout=900, extra_args=(), env=None):
    """Splits a path cover over nproc driver processes; returns aggregated
    dict(paths, steps, mismatches, first, crashed=[...])."""
    from concurrent.futures import ThreadPoolExecutor
    nproc = nproc or NCPU
    d = os.path.join(WORK, "paths", name)
    shutil.rmtree(d, ignore_errors=True)
    os.makedirs(d)
    chunks = [[] for _ in range(min(nproc, max(1, len(paths))))]
    # balance by number of steps
    load = [0] * len(chunks)
    for p in sorted(paths, key=lambda p: -len(p[2])):
        i = load.index(min(load))
        chunks[i].append(p)
        load[i] += len(p[2]) + 5
    files = []
    for i, c in enumerate(chunks):
        fn = os.path.join(d, "paths_%d.txt" % i)
        write_paths(c, fn, fmt_action)
        files.append(fn)

    def one(fn):
        return fn, run_driver(exe, list(extra_args) + [fn], timeout=timeout, env=env)

    agg = dict(paths=0, steps=0, mismatches=0, first=None, crashed=[], files=files)
    with ThreadPoolExecutor(max_workers=len(files)) as ex:
        for fn, (results, other, rc, err) in ex.map(one, files):
            if not results:
                agg["crashed"].append(dict(file=fn, rc=rc, stderr=err[:6000], stdout="\n".join(other[-10:])))
                continue
            for r in results:
                agg["paths"] += r.get("paths", 0)
                agg["steps"] += r.get("steps", 0)
                agg["mismatches"] += r.get("mismatches", 0)
                if r.get("first") and not agg["first"]:
                    agg["first"] = dict(r["first"], file=fn)
            if rc != 0:
                agg["crashed"].append(dict(file=fn, rc=rc, stderr=err[-1500:]))
    if not agg["mismatches"] and not agg["crashed"]:
        shutil.rmtree(d, ignore_errors=True)       # path files are only kept when something has to be looked at
    return agg
